#!/bin/sh
# runs every thorough check once (sequentially) and prints one line per property
here=$(cd "$(dirname "$0")/.." && pwd)
cd "$here" || exit 3
export GOFLAGS=-mod=mod GOPROXY=off GOSUMDB=off GOTOOLCHAIN=local
mkdir -p bin && go build -o bin/ ./cmd/... || exit 3
for c in ${1:-C14 C16 C08 C19 C13 C15 C02 C11 C20 C01 C09 C18 C10 C12 C05 C04 C07 C06 C03 C17}; do
  s=$(date +%s)
  out=$(VERIF_DIR="$here" timeout ${THOROUGH_TIMEOUT:-5400} bin/gosym check $c --tier thorough --no-evidence 2>&1); rc=$?
  e=$(date +%s)
  echo "THOROUGH $c exit=$rc wall=$((e-s))s :: $(echo "$out" | tail -1)"
  echo "$out" | grep -E '^(VIOLATION|INCONCLUSIVE|VACUOUS)' | head -5 | cut -c1-300
  echo "$out" | grep '^  vh' | cut -c1-200
done
