#!/bin/sh
# tools/with_seed.sh <seed dir> <command...>: runs the command with VERIF_REPO pointing
# at a scratch worktree of /repo (under /tmp) that has the seeded change applied; the
# worktree is removed afterwards. /repo itself is not touched.
set -u
d=$(cd "$1" && pwd); shift
w=$(mktemp -d /tmp/withseed.XXXXXX)
git -C /repo worktree add -q --detach "$w/wt" HEAD || exit 3
trap 'git -C /repo worktree remove --force "$w/wt" >/dev/null 2>&1; rm -rf "$w"' EXIT
git -C "$w/wt" apply "$d/patch.diff" || exit 3
VERIF_REPO="$w/wt" "$@"
