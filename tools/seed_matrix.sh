#!/bin/sh
# tools/seed_matrix.sh [tier]: runs every seeded defect in /verif/seeded against the
# check of its property (quick tier by default), each in its own scratch worktree of
# /repo (outside /repo and /verif), and prints one line per seed.
# Usable under `vp run --with-repo -- tools/seed_matrix.sh`.
set -u
here=$(cd "$(dirname "$0")/.." && pwd)
tier="${1:-quick}"
export GOFLAGS=-mod=mod GOPROXY=off GOSUMDB=off GOTOOLCHAIN=local
cd "$here" || exit 3
mkdir -p bin && go build -o bin/ ./cmd/... || exit 3
det=0; tot=0
for d in "$here"/seeded/*${SEED_FILTER:-}*/; do
  s=$(basename "$d")
  prop=$(python3 -c "import json;print(json.load(open('$d/meta.json'))['property'])")
  w=$(mktemp -d /tmp/seedmatrix.XXXXXX)
  git -C /repo worktree add -q --detach "$w/wt" HEAD || { echo "$s worktree failed"; continue; }
  if git -C "$w/wt" apply "$d/patch.diff" 2>/dev/null; then
    out=$(VERIF_REPO="$w/wt" VERIF_DIR="$here" bin/gosym check "$prop" --tier "$tier" --no-evidence 2>&1); rc=$?
    lab=$(echo "$out" | grep -m1 '^  counterexample' | sed 's/.*\[\(.*\)\].*/\1/' | cut -c1-90)
    echo "$s property=$prop exit=$rc violations=$(echo "$out" | grep -c '^VIOLATION') first=[$lab]"
    tot=$((tot+1)); [ "$rc" = 1 ] && det=$((det+1))
  else
    echo "$s patch does not apply to /repo HEAD"
  fi
  git -C /repo worktree remove --force "$w/wt" >/dev/null 2>&1; rm -rf "$w"
done
echo "SEED-MATRIX tier=$tier detected=$det of $tot"
