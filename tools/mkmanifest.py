#!/usr/bin/env python3
"""Regenerates /verif/MANIFEST.json from the table below (kept in one place so the
manifest stays valid and in step with the checks that exist)."""
import json, os
here = os.path.dirname(os.path.dirname(os.path.abspath(__file__)))
props = [json.loads(l) for l in open(os.path.join(here, 'properties.jsonl'))]

E1 = "gosym"
E2 = "gobmc"
# id -> (engine, technique, level text, level note, design ref)
claimed = {
 "C14": (E1, "bounded symbolic execution of the real go/ssa + SMT (z3): all inputs <= N bytes per construction route",
         "Every construction route of EventID/EventType is executed symbolically from /repo's SSA with the input as N symbolic bytes; z3 decides feasibility of every branch and the assertion 'IsSet implies single line / multi-line input leaves it unset and reports an error' on every path. Within the byte bound this covers all inputs, which the tests sample a handful of; nothing is claimed beyond the bound.",
         "Trusted: go/ssa construction (x/tools v0.29.0), the executor's instruction semantics (validated by replaying sample paths and every counterexample natively), z3 4.8.12; encoding/json is over-approximated by a stub (decodes to the chosen string or fails).",
         "DESIGN.md §5 C14"),
}
pending = "check not built yet (engine work in progress; will be decided with the same SSA->SMT technique or declared not applicable)"
na_reasons = {}

checks = []
na = []
for p in props:
    i = p["id"]
    if i in claimed:
        eng, tech, text, note, ref = claimed[i]
        checks.append({
            "property_id": i,
            "quick_cmd": f"./check {i} --tier quick",
            "thorough_cmd": f"./check {i} --tier thorough",
            "evidence_file": f"/verif/evidence/{i}.json",
            "replay_cmd_template": f"./check {i} --replay {{path}}",
            "engine": eng,
            "level_claimed": {"category": "model_checking", "text": text, "design_ref": ref},
            "level_note": note,
            "technique": tech,
        })
    else:
        na.append({"property_id": i, "reason": na_reasons.get(i, pending)})

m = {
 "version": 1,
 "setup_cmd": "cd /verif && ./setup.sh",
 "hooks": {
   "guard": "verif",
   "enable": "no build tag needed: harnesses and instrumentation are injected with go/packages Overlay (symbolic run) and go test -overlay (native replay); /repo is never modified by a check",
   "baseline_off_cmd": "cd /repo && go test -vet=off -count=1 ./...",
   "source_commits": [],
   "add_only": True,
 },
 "engines": [
   {"name": "gosym", "path": "/verif/cmd/gosym", "serves_properties": sorted(k for k, v in claimed.items() if v[0] == E1),
    "kind_free_text": "path-forking symbolic executor for sequential Go SSA (go/ssa, x/tools v0.29.0) emitting SMT-LIB2 bit-vector queries to z3; counterexamples replayed natively with go test -overlay"},
   {"name": "gobmc", "path": "/verif/cmd/gobmc", "serves_properties": sorted(k for k, v in claimed.items() if v[0] == E2),
    "kind_free_text": "bounded model checker for Joe's goroutines: SSA -> transition system with symbolic schedule, decided by z3 (BMC unrolling / Spacer CHC)"},
 ],
 "checks": checks,
 "notes": "Solver-based checking of the real code only (see DESIGN.md). Exit codes of ./check: 0 held, 1 VIOLATION, 2 vacuous/unwinding exceeded, 3 inconclusive (unsupported construct, solver error, counterexample that does not replay).",
 "not_applicable": na,
}
json.dump(m, open(os.path.join(here, 'MANIFEST.json'), 'w'), indent=1)
print("claimed:", [c["property_id"] for c in checks])
