#!/usr/bin/env python3
"""Regenerates /verif/MANIFEST.json from the table below (kept in one place so the
manifest stays valid and in step with the checks that exist)."""
import json, os
here = os.path.dirname(os.path.dirname(os.path.abspath(__file__)))
props = [json.loads(l) for l in open(os.path.join(here, 'properties.jsonl'))]

E1 = "gosym"
E2 = "gobmc"
# id -> (engine, technique, level text, level note, design ref)
claimed = {
 "C14": (E1, "bounded symbolic execution of the real go/ssa + SMT (z3): all inputs <= N bytes per construction route",
         "Every construction route of EventID/EventType is executed symbolically from /repo's SSA with the input as N symbolic bytes; z3 decides feasibility of every branch and the assertion 'IsSet implies single line / multi-line input leaves it unset and reports an error' on every path. Within the byte bound this covers all inputs, which the tests sample a handful of; nothing is claimed beyond the bound.",
         "Trusted: go/ssa construction (x/tools v0.29.0), the executor's instruction semantics (validated by replaying sample paths and every counterexample natively), z3 4.8.12; encoding/json is over-approximated by a stub (decodes to the chosen string or fails).",
         "DESIGN.md §5 C14"),
 "C08": (E1, "bounded symbolic execution of the real go/ssa + SMT (z3): one inductive step of Put/Replay from every ring state satisfying the representation invariant",
         "FiniteReplayer is decided by an inductive step, not by exploring histories: the pre-state is an arbitrary ring (every count/head shape, symbolic IDs and topics) assumed to satisfy the representation invariant; one real Put or Replay with symbolic arguments is executed from /repo's SSA and z3 decides that the invariant is re-established, the abstract list is the last N accepted entries and the Send/Flush log equals the specification's sub-list. Together with the checked base case this covers Put/Replay histories of any length for the capacities in the bound.",
         "Trusted: go/ssa, executor semantics (sample paths and counterexamples are replayed natively), z3; the representation invariant is stated in harness/sse_c08.go; capacities and ID/topic sizes as listed in the evidence bounds.",
         "DESIGN.md §5 C08"),
 "C09": (E1, "bounded symbolic execution of the real go/ssa + SMT (z3): one inductive step of Put/Replay/GC from every ring state with symbolic 64-bit clock, TTL, GC interval and expiries",
         "ValidReplayer: arbitrary ring state with arbitrary non-decreasing expiries, arbitrary TTL/GCInterval/lastGC and an arbitrary clock value (64-bit symbolic instants); one real Put, Replay or GC is executed symbolically; z3 decides that no unexpired entry is dropped (by collection, grow or shrink), no expired entry is ever sent, the replay is exactly the later unexpired matching entries, and the invariant holds again. Induction covers histories and clock advances of any length within the buffer lengths checked.",
         "Trusted: as C08; time.Time is modelled as one 64-bit nanosecond count (Add/Sub/After/IsZero), instants < 2^60 so that Sub does not saturate; non-decreasing clock assumed as the property states.",
         "DESIGN.md §5 C09"),
 "C18": (E1, "bounded symbolic execution + SMT over ring states, reachability walk on the executor's explicit heap",
         "Reuses the C08/C09 inductive step. After every Put/GC from an arbitrary ring state the executor walks its explicit heap from the replayer value (slices keep their whole backing array alive, including the part hidden beyond len) and asserts that no evicted or collected message is reachable, that every slot outside the live window - and beyond len - is the zero value, and that at most N entries are held. Which slots get written is index arithmetic over the ring state; the solver decides it for all states in the bound.",
         "Trusted: as C08/C09; 'unreachable in the executor heap' is taken to imply collectable by Go's GC (the GC itself is outside the claim).",
         "DESIGN.md §5 C18"),
 "C19": (E1, "bounded symbolic execution of the real go/ssa + SMT (z3): all histories of K operations on a clone family; Put from every ring state",
         "Clone independence: from an arbitrary message (explicit spare capacity in its chunk slice) every history of K operations (AppendData/AppendComment with symbolic strings, field assignment, Clone) over a family of up to 3 messages is executed symbolically; after each step the encodings of all members other than the one operated on are unchanged. Put never mutating its argument, every publication being a fresh object with the next ID, and earlier publications never changing are asserted in the C08/C09 Put step from every ring state.",
         "Trusted: as C08; spare capacities 0-2 stand for the states append growth can leave.",
         "DESIGN.md §5 C19"),
 "C15": (E1, "bounded symbolic execution of the real go/ssa + SMT (z3; cvc5 bit-vectors-as-integers for the decimal retry kernel): all messages within the byte bounds x every failing Write call",
         "Message.WriteTo/MarshalText/String/UnmarshalText, chunk.WriteTo, the FieldParser, bytes.Buffer and strings.Builder are executed from their SSA on messages built through the public API with symbolic strings; the failing Write index and the short count of the fault-injecting writer are symbolic, so z3 decides the exact byte accounting for every fault position at once; the retry encoder/decoder is decided for every int64 duration by cvc5 (--solve-bv-as-int=sum) in the thorough tier.",
         "Trusted: go/ssa, executor semantics (counterexamples and sample paths replayed natively), z3 4.8.12 and cvc5 1.0.3; string lengths and number of Append calls bounded as in the evidence.",
         "DESIGN.md §5 C15"),
 "C02": (E1, "bounded symbolic execution of the real go/ssa + SMT, differential against an independent WHATWG interpreter",
         "Messages are built through the public API with symbolic strings (all 256 byte values: CR/LF/colon/space/NUL/BOM), encoded by the real WriteTo, concatenated, and decoded both by an independently written WHATWG interpreter in browser mode and by go-sse's real Read (bufio.Scanner and all, from SSA); z3 decides on every path that exactly one event per message with data comes out with the LF-joined lines, type and ID that were set, and that every wire form ends in exactly one blank line with no inner blank line or CR (the lemma that extends the claim to longer concatenations).",
         "Trusted: as C15; the oracle in harness/sse_oracle.go is part of the claim; one listed known finding (IDs containing NUL).",
         "DESIGN.md §5 C02"),
 "C16": (E1, "bounded symbolic execution of the real go/ssa + SMT (z3): all Send/Flush sequences of length K x writer shapes x symbolic fault position",
         "Upgrade, Session.Send/Flush/doUpgrade, getResponseWriter, Message.WriteTo, Server.ServeHTTP/getSubscription are executed from SSA against a recording fault-injecting ResponseWriter whose failing call index is symbolic; a monitor over the ordered log decides header-before-body, single upgrade, body = concatenation of encodings, flush-pushes-everything and error attribution on every path; ServeHTTP is run with symbolic Last-Event-Id header, every OnSession outcome class and a refusing provider.",
         "Trusted: go/ssa, executor semantics (replay of counterexamples and sample paths natively), z3; http.Error is stubbed as WriteHeader+Write; interface type switches decided from go/types method sets.",
         "DESIGN.md §5 C16"),
 "C13": (E1, "bounded symbolic execution of the real go/ssa + SMT (z3): all histories of K subscribe/unsubscribe/dispatch operations with symbolic event types; lock discipline checked on every access",
         "Connection.addSubscriber/addSubscriberToAll/dispatch and the remover closures are executed from SSA over every history of K operations with symbolic type strings (map keys compared by the solver); a second goroutine that unsubscribes during a dispatch is modelled at every callback boundary and completes iff the RWMutex is free; the executor's mutex model checks that callbacks/callbacksAll/callbackID are only read under the lock and only written under the exclusive lock. The oracle is a flat list of subscriptions.",
         "Trusted: as C16; sequential consistency of sync.RWMutex; Go's random map iteration order replaced by insertion order (assertions are insensitive to it); real parallel data races are represented by the lock discipline only.",
         "DESIGN.md §5 C13"),
 "C01": (E1, "bounded symbolic execution of the real go/ssa + SMT (z3), differential against an independent WHATWG interpreter: all byte strings <= N x all read segmentations x both entry points",
         "sse.Read and (*Connection).read - parser.New, bufio.Scanner, splitFunc, FieldParser, read(), strconv.ParseUint, strings.Builder, all from their SSA - are executed on a stream of N symbolic bytes handed out by a reader whose chunk sizes are forked over every segmentation, with every early-stop position; the events, the error identity, the retry callbacks and the stored last event ID are compared by z3 on every path with an independently written one-pass WHATWG interpreter. Each path is an equivalence class of streams, so within the bound nothing is sampled; templates extend the reach to field-name-length streams.",
         "Trusted: go/ssa, executor semantics (validated by native replay of sample paths and of every counterexample), z3; the oracle harness/sse_oracle.go is part of the claim (byte-transparent, see DESIGN §4.1).",
         "DESIGN.md §5 C01"),
 "C20": (E1, "bounded symbolic execution of the real go/ssa + SMT (z3): all streams <= N x all segmentations x small scanner limits (the real bufio.Scanner growth logic runs with small numbers)",
         "Read with ReadConfig.MaxEventSize = L and Connection.Buffer(buf, L) (every small initial buffer, also the limit given by the buffer alone) are executed from SSA including bufio.Scanner's buffer growth/compaction; a counting reader with forked chunk sizes feeds N symbolic bytes; z3 decides on every path: no Go panic, an oversized token yields ErrTooLong after exactly the earlier events and at most limit bytes read beyond the last completed token, smaller tokens are delivered intact and completely.",
         "Trusted: as C01; the 4 KiB/64 KiB constants themselves are outside the claim (same code, larger numbers).",
         "DESIGN.md §5 C20"),
 "C11": (E1, "bounded symbolic execution of the real go/ssa + SMT (z3): streams x ways of ending x segmentations; the Connect loop against a scripted transport with symbolic scripts and cancellation points",
         "Parser.Next/Err, read(), Connection.read and the whole Connect/doConnect loop (timer, select, backoff, errors.Is) are executed from SSA; the stream bytes, the way the body ends (clean, read error at any offset, cancellation at any offset), the script of attempt outcomes, the validator verdict, the retry limit and the cancellation instant are symbolic or forked; z3 decides that Connect never returns nil, returns the context's error iff the context is done, returns at once on validator/body-reset failure, and otherwise wraps the last attempt's real error; read errors are never replaced by ErrUnexpectedEOF.",
         "Trusted: as C01; (*http.Client).Do is a stub calling Transport.RoundTrip and wrapping failures in *url.Error; timers fire at once; select among ready cases forks.",
         "DESIGN.md §5 C11"),
 "C10": (E1, "bounded symbolic execution of the real Connect loop (go/ssa) + SMT (z3) against a scripted transport: all scripts of <= A attempts x body kinds",
         "resetRequest, resetRequestBody, Connection.read and the Connect loop run from SSA against a transport whose script (transport failure / rejected response / 200 with a template stream containing symbolic id bytes, ending cleanly, with a read error or cut before dispatch) is forked and symbolic; the Last-Event-ID header of every request is compared with the ID the WHATWG oracle says was last dispatched, the request body identity with the fresh-body-per-retry rule.",
         "Trusted: as C11.",
         "DESIGN.md §5 C10"),
 "C12": (E1, "bounded symbolic execution of the real go/ssa + SMT (z3 bit-vectors and IEEE floating point): mergeDefaults for all configurations, the backoff controller for all event sequences of length K, the Connect loop for retry accounting",
         "mergeDefaults is decided for every Backoff value (64-bit integers and all non-NaN doubles); backoffController.next/reset run from SSA through every sequence of K events with a symbolic non-decreasing clock and symbolic MaxElapsedTime, compared with the recurrence b_(k+1)=min(b_k*M, MaxInterval); OnRetry durations are compared with the durations the (stubbed) timer is armed with; a server retry field with symbolic digits becomes b_1 of the next series.",
         "Trusted: as C11; Jitter/Multiplier in the schedule clauses are the listed concrete values (symbolic J/M does not terminate in any available solver: measured in DESIGN §2.5); rng is an arbitrary double in [0,1).",
         "DESIGN.md §5 C12"),
 "C06": (E1, "bounded symbolic execution of the real joe.go (go/ssa) with interpreted goroutines: every interleaving of visible channel operations of a bounded configuration, environment outcomes symbolic (z3)",
         "Joe.Subscribe/Publish/Shutdown/start/removeSubscriber/closeSubscribers/tryPut/tryReplay run from their SSA as interpreted threads; a thread parks before every channel send/receive/select/close, the scheduler computes the enabled transitions (buffered operations, rendezvous pairs, closed-channel cases) and the one that fires is a forked choice, so all interleavings of the configuration are covered; every Send/Flush/Put/Replay outcome (ok, error, panic) is a symbolic or forked choice. Monitors decide: no goroutine dies with an unrecovered panic, no MessageWriter call after Subscribe returned, Subscribe's result. The pinned tree's double close (F5) is found in under a second with its exact schedule.",
         "Trusted: go/ssa, executor semantics, z3; sequential consistency of channel and sync.Once operations (Joe shares no plain variable between goroutines; a write by one interpreted thread to memory another reads is simply executed in interleaving order); the schedule space is explored by forking (one path per interleaving class of visible operations, invisible steps commute), NOT by a single solver query over a symbolic schedule: within each interleaving all environment outcomes and topic matches are symbolic and decided by z3. Counterexamples are confirmed natively by repeating the scenario under the real Go scheduler (stress, up to 20000 runs / 20 s) with the counterexample's environment outcomes." ,
         "DESIGN.md §5 C06, §3"),
 "C07": (E1, "as C06: all interleavings of bounded configurations with Shutdown; quiescence analysis (no enabled transition) decides termination and deadlock",
         "The scheduler runs until no transition is enabled; the harness then asserts that with a Shutdown every goroutine has finished (every Subscribe/Publish returned with an allowed value, exactly one Shutdown returned nil, Joe's goroutine exited), and that without Shutdown nothing but Joe's idle goroutine remains once every subscriber was cancelled. A blocked non-terminated thread at quiescence is a deadlock counterexample with its schedule.",
         "Trusted: go/ssa, executor semantics, z3; sequential consistency of channel and sync.Once operations (Joe shares no plain variable between goroutines; a write by one interpreted thread to memory another reads is simply executed in interleaving order); the schedule space is explored by forking (one path per interleaving class of visible operations, invisible steps commute), NOT by a single solver query over a symbolic schedule: within each interleaving all environment outcomes and topic matches are symbolic and decided by z3. Counterexamples are confirmed natively by repeating the scenario under the real Go scheduler (stress, up to 20000 runs / 20 s) with the counterexample's environment outcomes.",
         "DESIGN.md §5 C07, §3"),
 "C03": (E1, "as C06: all interleavings of bounded configurations; delivery monitor over the Send/Flush/Put log with symbolic topics",
         "Per (subscriber, message) the monitor decides at-most-once, only-if-topics-intersect (the real topicsIntersect against an independent one, symbolic one-byte topics), Joe's serialisation order, completeness for subscribers registered before acceptance, and Send-then-Flush, over every interleaving of the configuration; a recording contract replayer witnesses the order in which Joe accepted messages and registered subscribers.",
         "Trusted: go/ssa, executor semantics, z3; sequential consistency of channel and sync.Once operations (Joe shares no plain variable between goroutines; a write by one interpreted thread to memory another reads is simply executed in interleaving order); the schedule space is explored by forking (one path per interleaving class of visible operations, invisible steps commute), NOT by a single solver query over a symbolic schedule: within each interleaving all environment outcomes and topic matches are symbolic and decided by z3. Counterexamples are confirmed natively by repeating the scenario under the real Go scheduler (stress, up to 20000 runs / 20 s) with the counterexample's environment outcomes.",
         "DESIGN.md §5 C03, §3"),
 "C17": (E1, "as C06: all interleavings, every Send/Flush may fail, every Put/Replay may return an error or panic",
         "The delivery obligations of C03 are asserted for every subscriber that has not itself failed while the others' Send/Flush calls and the replayer's Put/Replay calls fail or panic (symbolic / forked outcome per call); plus: exactly the failing subscriber's Subscribe returns its error, a Put error is returned by that Publish while the message is still delivered, a panicking replayer is never used again.",
         "Trusted: go/ssa, executor semantics, z3; sequential consistency of channel and sync.Once operations (Joe shares no plain variable between goroutines; a write by one interpreted thread to memory another reads is simply executed in interleaving order); the schedule space is explored by forking (one path per interleaving class of visible operations, invisible steps commute), NOT by a single solver query over a symbolic schedule: within each interleaving all environment outcomes and topic matches are symbolic and decided by z3. Counterexamples are confirmed natively by repeating the scenario under the real Go scheduler (stress, up to 20000 runs / 20 s) with the counterexample's environment outcomes.",
         "DESIGN.md §5 C17, §3"),
 "C04": (E1, "as C06: all interleavings of a resuming Subscribe with concurrent Publish calls against the replayer contract (assume-guarantee with C08/C09)",
         "A subscriber presenting no ID, the ID of any message or a never-issued ID races a publisher; the replayer is the contract (Put stamps and returns the ID-carrying copy, Replay delivers the stamped messages after the presented one that match) whose implementation by FiniteReplayer/ValidReplayer is what C08/C09 decide. Over every interleaving the subscriber's Send sequence is exactly the missed messages followed by the live ones, once each, in Put order, each the ID-carrying copy.",
         "Trusted: go/ssa, executor semantics, z3; sequential consistency of channel and sync.Once operations (Joe shares no plain variable between goroutines; a write by one interpreted thread to memory another reads is simply executed in interleaving order); the schedule space is explored by forking (one path per interleaving class of visible operations, invisible steps commute), NOT by a single solver query over a symbolic schedule: within each interleaving all environment outcomes and topic matches are symbolic and decided by z3. Counterexamples are confirmed natively by repeating the scenario under the real Go scheduler (stress, up to 20000 runs / 20 s) with the counterexample's environment outcomes.",
         "DESIGN.md §5 C04, §3"),
 "C05": (E1, "bounded symbolic execution of the real sequential data path (go/ssa) + SMT: every cut offset x every publish timeline x symbolic payloads",
         "What go-sse contributes to the end-to-end property is executed as one symbolic run: real FiniteReplayer/ValidReplayer.Put, Upgrade, getSubscription, Replay through a real Session and Message.WriteTo into bytes, live Send+Flush, the bytes cut at every offset (read error, or handler return at message boundaries), real Connection.read, real resetRequest producing the next request's Last-Event-ID. The assertion compares the client's callback log with the published list from the first received event on. The network and Joe's goroutines are replaced by the stated assumptions (decided for Joe in C03/C04/C06).",
         "Trusted: as C01/C08/C16; assume-guarantee seams listed under outside_the_claim in the evidence.",
         "DESIGN.md §5 C05"),
}
pending = "check not built yet (engine work in progress; will be decided with the same SSA->SMT technique or declared not applicable)"
na_reasons = {}

checks = []
na = []
# additions made while the checks were strengthened against the seeded defects (DESIGN.md §7)
extra = {
 "C09": " In addition, histories of 5 operations (Put/advance the clock by a symbolic amount/GC/Replay) from the constructor's initial state are executed through the public API only and compared with the abstract list of (event, expiry) - independent of the replayer's representation.",
 "C18": " Also: FiniteReplayers of capacity 2..17 built by the public constructor with N+3 Puts, ValidReplayer public-API histories, and a Replay to a failing client before the evicting Put / collecting GC; reachability counterexamples are confirmed natively by a reflection walk over the replayer.",
 "C13": " A second harness runs a dispatch and an unsubscribe as two interpreted goroutines with mutex acquisitions as scheduling points (every interleaving), and one with a callback that cancels the request context.",
 "C11": " A call that can never return in the scenario (a receive/select nothing will make ready, e.g. waiting for a timer that does not fire after the context ended) is reported as a hang and confirmed natively under a watchdog; Connect called repeatedly on one Connection is covered.",
 "C12": " The quick tier also runs a jitter configuration over histories of 4 events with the random draws at {0, 1/2, largest double below 1} (the wait is monotone in the draw); a fully symbolic draw (IEEE floating point) did not complete reliably in any installed solver and is not registered.",
 "C07": " Covered as well: a Shutdown context that ends while Joe is busy, consumers whose Send returns once a pending Publish or the Shutdown call has returned, and 'Shutdown returned nil implies every subscriber released'.",
}
for p in props:
    i = p["id"]
    if i in claimed:
        eng, tech, text, note, ref = claimed[i]
        text += extra.get(i, "")
        checks.append({
            "property_id": i,
            "quick_cmd": f"./check {i} --tier quick",
            "thorough_cmd": f"./check {i} --tier thorough",
            "evidence_file": f"/verif/evidence/{i}.json",
            "replay_cmd_template": f"./check {i} --replay {{path}}",
            "engine": eng,
            "level_claimed": {"category": "model_checking", "text": text, "design_ref": ref},
            "level_note": note,
            "technique": tech,
        })
    else:
        na.append({"property_id": i, "reason": na_reasons.get(i, pending)})

m = {
 "version": 1,
 "setup_cmd": "cd /verif && ./setup.sh",
 "hooks": {
   "guard": "verif",
   "enable": "no build tag needed: harnesses and instrumentation are injected with go/packages Overlay (symbolic run) and go test -overlay (native replay); /repo is never modified by a check",
   "baseline_off_cmd": "cd /repo && go test -vet=off -count=1 ./...",
   "source_commits": [],
   "add_only": True,
 },
 "engines": [
   {"name": "gosym", "path": "/verif/cmd/gosym", "serves_properties": sorted(k for k, v in claimed.items() if v[0] == E1),
    "kind_free_text": "path-forking symbolic executor for sequential Go SSA (go/ssa, x/tools v0.29.0) emitting SMT-LIB2 bit-vector queries to z3; counterexamples replayed natively with go test -overlay"},
 ],
 "checks": checks,
 "notes": "Solver-based checking of the real code only (see DESIGN.md). Exit codes of ./check: 0 held, 1 VIOLATION, 2 vacuous/unwinding exceeded, 3 inconclusive (unsupported construct, solver error, counterexample that does not replay).",
 "not_applicable": na,
}
json.dump(m, open(os.path.join(here, 'MANIFEST.json'), 'w'), indent=1)
print("claimed:", [c["property_id"] for c in checks])
