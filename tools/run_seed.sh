#!/bin/sh
# tools/run_seed.sh <seed dir> [check ids...]: applies the seeded change to /repo,
# runs the quick checks (default: the property in meta.json), restores /repo.
set -u
d="$1"; shift
prop=$(python3 -c "import json;print(json.load(open('$d/meta.json'))['property'])")
[ $# -gt 0 ] || set -- "$prop"
if [ -n "$(git -C /repo status --porcelain)" ]; then echo "/repo not clean"; exit 3; fi
git -C /repo apply "$d/patch.diff" || exit 3
trap 'git -C /repo checkout -- . ' EXIT
for c in "$@"; do
  out=$(cd /verif && ./check "$c" --tier "${TIER:-quick}" --no-evidence 2>&1); rc=$?
  echo "$c exit=$rc $(echo "$out" | grep -c '^VIOLATION') violation lines"
  echo "$out" | grep -E '^(  counterexample|INCONCLUSIVE|VACUOUS)' | head -3 | cut -c1-300
done
