#!/bin/sh
# tools/confirm_seed.sh <dir with patch.diff demo_test.go meta.json>
# Confirms in a scratch worktree of /repo (HEAD) that the seeded change compiles,
# passes the existing suite, that the demo fails with it and passes without it.
set -u
d="$1"
export GOFLAGS=-mod=mod GOPROXY=off GOSUMDB=off GOTOOLCHAIN=local
td=$(python3 -c "import json,sys;print(json.load(open('$d/meta.json')).get('test_dir','.'))")
w=$(mktemp -d /tmp/seedconfirm.XXXXXX)
git -C /repo worktree add -q --detach "$w/wt" HEAD || exit 3
trap 'git -C /repo worktree remove --force "$w/wt" >/dev/null 2>&1; rm -rf "$w"' EXIT
cd "$w/wt" || exit 3
cp "$d/demo_test.go" "$td/zz_seed_demo_test.go"
tn=$(grep -o 'func TestSeed[A-Za-z0-9_]*' "$d/demo_test.go" | head -1 | sed 's/func //')
if go test -vet=off -count=1 -run "^$tn\$" ./$td >/dev/null 2>&1; then echo "clean: demo passes"; else echo "FAIL: demo does not pass on clean tree"; exit 1; fi
rm "$td/zz_seed_demo_test.go"
git apply "$d/patch.diff" || { echo "FAIL: patch does not apply"; exit 1; }
go build ./... || { echo "FAIL: does not build"; exit 1; }
if go test -vet=off -count=1 ./... >/dev/null 2>&1; then echo "mutant: suite passes"; else echo "FAIL: suite fails with the change"; exit 1; fi
cp "$d/demo_test.go" "$td/zz_seed_demo_test.go"
if go test -vet=off -count=1 -run "^$tn\$" ./$td >/dev/null 2>&1; then echo "FAIL: demo passes with the change"; exit 1; else echo "mutant: demo fails"; fi
echo CONFIRMED
