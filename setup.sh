#!/bin/sh
# Build the verification engines from files on disk only (offline).
set -e
cd "$(dirname "$0")"
export GOFLAGS=-mod=mod GOPROXY=off GOSUMDB=off GOTOOLCHAIN=local
mkdir -p bin evidence replays
go build -o bin/ ./cmd/...
