module verif

go 1.23

require golang.org/x/tools v0.29.0
