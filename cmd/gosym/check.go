package main

import (
	"bufio"
	"crypto/sha1"
	"encoding/json"
	"flag"
	"fmt"
	"os"
	"os/exec"
	"path/filepath"
	"sort"
	"strings"
	"time"

	"verif/internal/sym"
)

// hrun is one harness exploration with its bounds.
type hrun struct {
	Harness    string
	Params     map[string]int
	Solver     string   // default z3
	AppendFork bool     // fork append growth
	Covers     []string // labels that must be reached (vacuity witnesses) in addition to >=1 assertion
	MaxSteps   int
	NoNative   bool // sample paths are not replayed natively (harness uses executor-only facilities)
	Threads    bool // go statements / verifGo become interpreted, schedulable threads
	Stress     int  // native replays repeat the harness this many times (real goroutines: the Go scheduler picks the interleaving)
}

type propCheck struct {
	ID          string
	Quick       []hrun
	Thorough    []hrun
	Bounds      map[string]string // tier -> text
	Outside     []string
	Assumptions []string
	Oracle      string
	Labels      []string // violations count for this property only if their label contains one of these (empty: all)
}

type knownFinding struct {
	Status    string `json:"status"` // known | fixed
	Property  string `json:"property"`
	Label     string `json:"label"`     // assertion label (prefix match)
	Predicate string `json:"predicate"` // verifKnown name that characterises the failing inputs
	Commit    string `json:"commit,omitempty"`
	What      string `json:"what"`
}

func loadKnown() ([]knownFinding, error) {
	f, err := os.Open(filepath.Join(verifDir, "known_findings.jsonl"))
	if err != nil {
		if os.IsNotExist(err) {
			return nil, nil
		}
		return nil, err
	}
	defer f.Close()
	var out []knownFinding
	sc := bufio.NewScanner(f)
	sc.Buffer(nil, 1<<20)
	for sc.Scan() {
		line := strings.TrimSpace(sc.Text())
		if line == "" || strings.HasPrefix(line, "#") {
			continue
		}
		var k knownFinding
		if err := json.Unmarshal([]byte(line), &k); err != nil {
			return nil, fmt.Errorf("known_findings.jsonl: %v", err)
		}
		out = append(out, k)
	}
	return out, sc.Err()
}

type replayFile struct {
	Property string          `json:"property"`
	Harness  string          `json:"harness"`
	Label    string          `json:"label"`
	Expect   string          `json:"expect"`
	Params   map[string]int  `json:"params"`
	Values   []sym.NondetRec `json:"values"`
	Detail   string          `json:"detail,omitempty"`
	Observe  []string        `json:"observe,omitempty"`
	Schedule []sym.SchedStep `json:"schedule,omitempty"`
}

func writeReplay(rf *replayFile) (string, error) {
	b, _ := json.MarshalIndent(rf, "", " ")
	h := sha1.Sum(b)
	dir := filepath.Join(verifDir, "replays")
	os.MkdirAll(dir, 0o755)
	path := filepath.Join(dir, fmt.Sprintf("%s-%x.json", rf.Property, h[:6]))
	return path, os.WriteFile(path, b, 0o644)
}

const replayTestSrc = `package sse

import (
	"fmt"
	"os"
	"strings"
	"testing"
	"time"
)

func TestVerifReplay(t *testing.T) {
	hs := map[string]func(){
%s
	}
	bad := false
	for _, path := range strings.Split(os.Getenv("VERIF_REPLAY"), ":") {
		if path == "" {
			continue
		}
		if err := verifLoad(path); err != nil {
			t.Fatalf("load %%s: %%v", path, err)
		}
		h, ok := hs[verifVec.Harness]
		if !ok {
			t.Fatalf("unknown harness %%s", verifVec.Harness)
		}
		// harnesses with real goroutines are repeated (stress) because the Go scheduler,
		// not the replay vector, picks the interleaving natively
		iters := 1
		if n := verifVec.Params["VERIF_STRESS"]; n > 0 {
			iters = n
		}
		fmt.Printf("VERIF-REPLAY-BEGIN %%s\n", path)
		deadline := time.Now().Add(20 * time.Second)
		var failures []string
		skipped := false
		var log []string
		run := func() {
			func() {
				defer func() {
					if r := recover(); r != nil {
						if _, ok := r.(verifSkip); ok {
							return
						}
						verifFailures = append(verifFailures, fmt.Sprint("panic: ", r))
					}
				}()
				h()
			}()
			failures, skipped, log = verifFailures, verifSkipped, verifLog
		}
		mode := "direct"
		followed := false
		if len(verifVec.Schedule) > 0 {
			// schedule-directed replay: follow the recorded interleaving; an attempt in which a
			// select natively took another ready case (or a goroutine did not show up) is repeated
			mode = "schedule-directed"
			for it := 0; it < 400 && !followed && time.Now().Before(deadline); it++ {
				if it > 0 {
					if err := verifLoad(path); err != nil {
						t.Fatal(err)
					}
				}
				verifSchedReset(verifVec.Schedule, true)
				if it < 3 {
					fmt.Printf("VERIF-REPLAY-ATTEMPT %%d (schedule-directed, %%d steps)\n", it, len(verifVec.Schedule))
				}
				run()
				if !verifDeviated() {
					followed = true
				} else if it < 3 {
					fmt.Printf("  deviated: %%s\n", verifDeviationReason())
				}
			}
			if !followed {
				fmt.Printf("  last attempt: %%s\n", verifDeviationReason())
			}
			verifSchedReset(nil, false)
			if !followed {
				failures, skipped = nil, false
			}
		}
		if !followed {
			if len(verifVec.Schedule) > 0 {
				mode = "stress (the schedule could not be followed natively)"
			}
			deadline = time.Now().Add(20 * time.Second)
			for it := 0; it < iters && len(failures) == 0 && time.Now().Before(deadline); it++ {
				if it > 0 || len(verifVec.Schedule) > 0 {
					if err := verifLoad(path); err != nil {
						t.Fatal(err)
					}
				}
				run()
			}
		}
		fmt.Printf("VERIF-REPLAY-MODE %%s %%s\n", path, mode)
		switch {
		case len(failures) > 0:
			fmt.Printf("VERIF-REPLAY %%s FAIL %%q\n", path, failures)
			bad = true
		case skipped:
			fmt.Printf("VERIF-REPLAY %%s SKIPPED (assumption false natively)\n", path)
		default:
			fmt.Printf("VERIF-REPLAY %%s PASS\n", path)
		}
		for _, l := range log {
			fmt.Printf("  observe %%s\n", l)
		}
	}
	if bad {
		t.Fail()
	}
}
`

// nativeReplay runs the replay vectors against the real build: the harness
// files and a generated test are overlaid onto /repo (go test -c -overlay),
// and the test binary is run on the vectors. It returns, per path, "FAIL
// <labels>", "PASS" or "SKIPPED". A vector whose run kills the process
// (unrecovered panic in a goroutine of the code under test) counts as FAIL.
func nativeReplay(paths []string, harnesses []string) (map[string]string, string, error) {
	return nativeReplayMode(paths, harnesses, false)
}

// nativeReplayMode with race=true builds the replay test with the Go race detector: used to
// confirm lock-discipline counterexamples (a reported DATA RACE while the vector runs = FAIL).
func nativeReplayMode(paths []string, harnesses []string, race bool) (map[string]string, string, error) {
	tmp, err := os.MkdirTemp("", "verif-replay-")
	if err != nil {
		return nil, "", err
	}
	defer os.RemoveAll(tmp)
	ov, err := sym.HarnessOverlay(repoDir, harnessDir)
	if err != nil {
		return nil, "", err
	}
	for _, d := range droppedHarnessFiles {
		delete(ov, d)
	}
	var entries []string
	seen := map[string]bool{}
	for _, h := range harnesses {
		if !seen[h] {
			seen[h] = true
			entries = append(entries, fmt.Sprintf("\t\t%q: %s,", h, h))
		}
	}
	sort.Strings(entries)
	testFile := filepath.Join(tmp, "replay_test.go")
	if err := os.WriteFile(testFile, []byte(fmt.Sprintf(replayTestSrc, strings.Join(entries, "\n"))), 0o644); err != nil {
		return nil, "", err
	}
	ov[filepath.Join(repoDir, "zz_verif_replay_test.go")] = testFile
	// schedule-directed replay: joe.go with yield points before every visible operation
	if instr, err := instrumentVisibleOps(filepath.Join(repoDir, "joe.go")); err == nil {
		ip := filepath.Join(tmp, "joe_instrumented.go")
		if os.WriteFile(ip, instr, 0o644) == nil {
			ov[filepath.Join(repoDir, "joe.go")] = ip
		}
	}
	ovJSON, _ := json.Marshal(map[string]interface{}{"Replace": ov})
	ovPath := filepath.Join(tmp, "overlay.json")
	os.WriteFile(ovPath, ovJSON, 0o644)
	bin := filepath.Join(tmp, "replay.test")
	env := append(os.Environ(), "GOFLAGS=-mod=mod", "GOPROXY=off", "GOSUMDB=off", "GOTOOLCHAIN=local")
	buildArgs := []string{"test", "-c", "-vet=off", "-overlay", ovPath, "-o", bin}
	if race {
		buildArgs = append(buildArgs, "-race")
	}
	build := exec.Command("go", append(buildArgs, ".")...)
	build.Dir = repoDir
	build.Env = env
	if out, err := build.CombinedOutput(); err != nil {
		return nil, string(out), fmt.Errorf("building the replay test failed: %v\n%s", err, out)
	}
	res := map[string]string{}
	var all strings.Builder
	remaining := append([]string{}, paths...)
	for len(remaining) > 0 {
		// one vector per process: the executor starts every path from the package's initial
		// state, so a vector must not see globals another one left behind (and race reports
		// are de-duplicated per process)
		batch := remaining[:1]
		cmd := exec.Command(bin, "-test.run", "^TestVerifReplay$", "-test.v", "-test.timeout", "600s")
		cmd.Dir = repoDir
		cmd.Env = append(env, "VERIF_REPLAY="+strings.Join(batch, ":"))
		outB, _ := cmd.CombinedOutput()
		out := string(outB)
		all.WriteString(out)
		begun := ""
		for _, line := range strings.Split(out, "\n") {
			if strings.HasPrefix(line, "VERIF-REPLAY-BEGIN ") {
				begun = strings.TrimSpace(line[len("VERIF-REPLAY-BEGIN "):])
			} else if strings.HasPrefix(line, "VERIF-REPLAY ") {
				f := strings.SplitN(line[len("VERIF-REPLAY "):], " ", 2)
				if len(f) == 2 {
					res[f[0]] = f[1]
					if f[0] == begun {
						begun = ""
					}
				}
			}
		}
		if race && strings.Contains(out, "WARNING: DATA RACE") {
			// attribute the report to the vector that was running when it was printed
			cur := ""
			for _, line := range strings.Split(out, "\n") {
				if strings.HasPrefix(line, "VERIF-REPLAY-BEGIN ") {
					cur = strings.TrimSpace(line[len("VERIF-REPLAY-BEGIN "):])
				}
				if strings.Contains(line, "WARNING: DATA RACE") && cur != "" {
					res[cur] = "FAIL [data race reported by the Go race detector]"
				}
			}
		}
		if begun != "" {
			// the process died while running this vector
			msg := "process died"
			for _, line := range strings.Split(out, "\n") {
				if strings.HasPrefix(line, "panic: ") || strings.HasPrefix(line, "fatal error: ") {
					msg = line
					break
				}
			}
			res[begun] = "FAIL [crash: " + msg + "]"
		}
		var next []string
		for _, pth := range remaining {
			if _, ok := res[pth]; !ok {
				next = append(next, pth)
			}
		}
		if len(next) == len(remaining) {
			break // no progress
		}
		remaining = next
	}
	return res, all.String(), nil
}

type harnessEvidence struct {
	Harness        string                   `json:"harness"`
	Params         map[string]int           `json:"params"`
	Solver         string                   `json:"solver"`
	Paths          int                      `json:"feasible_paths"`
	Pruned         int                      `json:"pruned_paths"`
	Decisions      int                      `json:"decisions"`
	MaxDecisions   int                      `json:"max_decisions_per_path"`
	Steps          int64                    `json:"ssa_instructions_executed"`
	Queries        int                      `json:"smt_queries"`
	SolverS        float64                  `json:"solver_time_s"`
	WallS          float64                  `json:"wall_s"`
	AssertsReached int                      `json:"assertions_reached"`
	AssertsSMT     int                      `json:"assertions_discharged_by_query"`
	AssertsFacts   int                      `json:"assertions_implied_by_path_condition"`
	FastResolved   int                      `json:"branches_implied_by_path_condition"`
	AssertLabels   map[string]int           `json:"assert_labels"`
	Covers         map[string]int           `json:"covers"`
	Unknowns       int                      `json:"solver_unknowns"`
	Violations     int                      `json:"violations"`
	Known          int                      `json:"known_finding_instances"`
	Threads        bool                     `json:"interpreted_goroutines,omitempty"`
	SleepBlocked   int                      `json:"interleavings_dropped_as_redundant_by_sleep_sets,omitempty"`
	Samples        []map[string]interface{} `json:"-"`
}

func (pc *propCheck) owns(label string) bool {
	if len(pc.Labels) == 0 || strings.HasPrefix(label, "panic:") {
		return true
	}
	for _, l := range pc.Labels {
		if strings.Contains(label, l) {
			return true
		}
	}
	return false
}

func cmdCheck(args []string) int {
	fs := flag.NewFlagSet("check", flag.ExitOnError)
	tier := fs.String("tier", envOr("VERIF_TIER", "quick"), "quick | thorough")
	workers := fs.Int("workers", 16, "parallel workers")
	replay := fs.String("replay", "", "replay a counterexample file natively")
	only := fs.String("only", "", "run only harnesses whose name contains this")
	keep := fs.Bool("no-evidence", false, "do not write the evidence file")
	if len(args) < 1 {
		fmt.Fprintln(os.Stderr, "usage: gosym check <property> [--tier quick|thorough] [--replay file]")
		return 2
	}
	id := args[0]
	fs.Parse(args[1:])
	if harnessDir == "" {
		harnessDir = verifDir + "/harness"
	}
	pc, ok := checks[id]
	if !ok {
		fmt.Fprintf(os.Stderr, "no check registered for %s\n", id)
		return 2
	}
	if *replay != "" {
		return doReplay(id, *replay)
	}
	seed := 0
	fmt.Sscan(os.Getenv("VERIF_SEED"), &seed)
	runs := pc.Quick
	if *tier == "thorough" {
		runs = pc.Thorough
	}
	t0 := time.Now()
	known, err := loadKnown()
	if err != nil {
		fmt.Fprintln(os.Stderr, err)
		return 3
	}
	knownFor := map[string][]string{}
	prog, err := loadProgram(nil)
	if err != nil {
		fmt.Fprintln(os.Stderr, "load:", err)
		return 3
	}
	loadS := time.Since(t0).Seconds()

	var hev []harnessEvidence
	var allViol []*sym.Violation
	var violParams []map[string]int
	var internal []string
	var vacuous []string
	funcs := map[string]bool{}
	var samples []interface{}
	var sampleReplays []*replayFile
	totalQ, totalPaths, totalDec := 0, 0, 0
	totalSolver := 0.0
	for _, r := range runs {
		if *only != "" && !strings.Contains(r.Harness, *only) {
			continue
		}
		e, err := sym.NewExplorer(prog, r.Harness)
		if err != nil {
			if len(droppedHarnessFiles) > 0 {
				// its file was left out: this run is inconclusive, the others go on
				internal = append(internal, fmt.Sprintf("%s: harness unavailable, its file does not type-check against this tree (%v)", r.Harness, err))
				continue
			}
			fmt.Fprintln(os.Stderr, err)
			return 3
		}
		e.Workers = *workers
		if r.Solver != "" {
			e.SolverK = r.Solver
		}
		e.Params = r.Params
		e.Opt.AppendFork = r.AppendFork
		e.Opt.Threads = r.Threads
		if r.MaxSteps > 0 {
			e.Opt.MaxSteps = r.MaxSteps
		}
		// known-finding predicates apply per assertion label prefix; resolved lazily below
		e.KnownFor = knownFor
		e.KnownPrefix = map[string][]string{}
		for _, k := range known {
			if k.Status == "known" && k.Property == id {
				e.KnownPrefix[k.Label] = append(e.KnownPrefix[k.Label], k.Predicate)
			}
		}
		t1 := time.Now()
		e.Run()
		st := e.Stats
		he := harnessEvidence{Harness: r.Harness, Params: r.Params, Solver: e.SolverK, Paths: st.Paths, Pruned: st.Pruned, Decisions: st.Decisions,
			MaxDecisions: st.MaxPathDecisions, Steps: st.Steps, Queries: st.Queries, SolverS: st.SolverTime.Seconds(), WallS: time.Since(t1).Seconds(),
			AssertsReached: st.AssertsReached, AssertsSMT: st.AssertsDischargedBySMT, AssertsFacts: st.AssertsConcrete, FastResolved: st.FastResolved,
			AssertLabels: st.AssertLabels, Covers: st.Covers, Unknowns: st.Unknowns, Threads: r.Threads, SleepBlocked: st.SleepBlocked}
		for _, v := range e.Violations {
			if !pc.owns(v.Label) {
				continue
			}
			if v.Known != "" {
				he.Known++
			} else {
				he.Violations++
			}
			allViol = append(allViol, v)
			vp := map[string]int{}
			for k, x := range r.Params {
				vp[k] = x
			}
			if r.Stress > 0 {
				vp["VERIF_STRESS"] = r.Stress
			}
			if strings.HasPrefix(v.Label, "lock-discipline/") {
				vp["VERIF_RACE"] = 1
			}
			violParams = append(violParams, vp)
		}
		for f := range st.Funcs {
			funcs[f] = true
		}
		for _, m := range e.Internal {
			internal = append(internal, r.Harness+": "+m)
		}
		if st.AssertsReached == 0 {
			vacuous = append(vacuous, r.Harness+": no assertion reached on any feasible path")
		}
		for _, c := range r.Covers {
			if st.Covers[c] == 0 {
				vacuous = append(vacuous, r.Harness+": cover label "+c+" never reached")
			}
		}
		for i, s := range st.Samples {
			s["harness"] = r.Harness
			samples = append(samples, s)
			if !r.NoNative && i < 2 {
				if vals, ok := s["values"].([]sym.NondetRec); ok {
					sampleReplays = append(sampleReplays, &replayFile{Property: id, Harness: r.Harness, Label: "sample", Expect: "pass", Params: r.Params, Values: vals})
				}
			}
			delete(s, "values")
		}
		hev = append(hev, he)
		totalQ += st.Queries
		totalPaths += st.Paths
		totalDec += st.Decisions
		totalSolver += st.SolverTime.Seconds()
		fmt.Printf("  %-28s params=%v paths=%d pruned=%d asserts=%d queries=%d solver=%.1fs wall=%.1fs violations=%d known=%d\n", r.Harness, r.Params, st.Paths, st.Pruned, st.AssertsReached, st.Queries, st.SolverTime.Seconds(), he.WallS, he.Violations, he.Known)
	}

	// ---- replay counterexamples and sample paths against the real build ----
	exit := 0
	var violLines, knownLines []string
	confirmed, unconfirmed := 0, 0
	var rpaths []string
	var rfiles []*replayFile
	var harnessNames []string
	for i, v := range allViol {
		rf := &replayFile{Property: id, Harness: v.Harness, Label: v.Label, Expect: "fail", Params: violParams[i], Values: v.Values, Detail: v.Detail, Observe: v.Observe, Schedule: v.Sched}
		path, err := writeReplay(rf)
		if err != nil {
			fmt.Fprintln(os.Stderr, err)
			return 3
		}
		rpaths = append(rpaths, path)
		rfiles = append(rfiles, rf)
		harnessNames = append(harnessNames, v.Harness)
	}
	tmpSamples, _ := os.MkdirTemp("", "verif-samples-")
	defer os.RemoveAll(tmpSamples)
	var spaths []string
	for i, rf := range sampleReplays {
		b, _ := json.Marshal(rf)
		pth := filepath.Join(tmpSamples, fmt.Sprintf("s%d.json", i))
		os.WriteFile(pth, b, 0o644)
		spaths = append(spaths, pth)
		harnessNames = append(harnessNames, rf.Harness)
	}
	tracesValidated := 0
	if len(rpaths)+len(spaths) > 0 {
		var plain, racy []string
		for i, pth := range rpaths {
			if strings.HasPrefix(allViol[i].Label, "lock-discipline/") {
				racy = append(racy, pth)
			} else {
				plain = append(plain, pth)
			}
		}
		res, out, err := nativeReplay(append(append([]string{}, plain...), spaths...), harnessNames)
		if err == nil && len(racy) > 0 {
			res2, out2, err2 := nativeReplayMode(racy, harnessNames, true)
			err = err2
			out += out2
			if res == nil {
				res = map[string]string{}
			}
			for k, v := range res2 {
				res[k] = v
			}
		}
		if err != nil {
			fmt.Fprintln(os.Stderr, "replay:", err)
			return 3
		}
		if len(res) == 0 {
			fmt.Fprintln(os.Stderr, "native replay produced no result:\n"+out)
			return 3
		}
		for i, pth := range rpaths {
			v := allViol[i]
			r := res[pth]
			if strings.HasPrefix(r, "FAIL") {
				confirmed++
				if v.Known != "" {
					continue
				}
				violLines = append(violLines, fmt.Sprintf("VIOLATION property=%s replay=%s", id, pth))
				fmt.Printf("  counterexample %s [%s] %s -> native %s\n", v.Harness, v.Label, showValues(v.Values), r)
			} else {
				unconfirmed++
				internal = append(internal, fmt.Sprintf("counterexample for %s [%s] did not reproduce natively (%s): encoder mismatch, replay=%s", v.Harness, v.Label, r, pth))
			}
		}
		for _, pth := range spaths {
			r := res[pth]
			switch {
			case strings.HasPrefix(r, "PASS"):
				tracesValidated++
			case strings.HasPrefix(r, "SKIPPED"):
			default:
				b, _ := os.ReadFile(pth)
				internal = append(internal, fmt.Sprintf("sample path that passes symbolically fails natively (%s): encoder mismatch: %s", r, string(b)))
			}
		}
	}
	// known findings: one line per listed finding that was actually hit
	hit := map[string]bool{}
	for _, v := range allViol {
		if v.Known != "" {
			for _, n := range strings.Split(v.Known, ",") {
				hit[n] = true
			}
		}
	}
	for _, k := range known {
		if k.Status == "known" && k.Property == id && hit[k.Predicate] {
			knownLines = append(knownLines, fmt.Sprintf("KNOWN-FINDING: property=%s %s", id, k.What))
		}
	}

	for _, l := range knownLines {
		fmt.Println(l)
	}
	for _, l := range violLines {
		fmt.Println(l)
	}
	for _, m := range internal {
		fmt.Println("INCONCLUSIVE:", m)
	}
	for _, m := range vacuous {
		fmt.Println("VACUOUS:", m)
	}
	switch {
	case len(violLines) > 0:
		exit = 1
	case len(internal) > 0:
		exit = 3
	case len(vacuous) > 0:
		exit = 2
	}

	// ---- evidence ----
	var fl []string
	for f := range funcs {
		if !strings.Contains(f, "vh") || true {
			fl = append(fl, f)
		}
	}
	sort.Strings(fl)
	var repoFuncs []string
	for _, f := range fl {
		if strings.Contains(f, "tmaxmax/go-sse") && !strings.Contains(f, ".vh") && !strings.Contains(f, ".verif") {
			repoFuncs = append(repoFuncs, f)
		}
	}
	if len(samples) == 0 {
		samples = append(samples, "no feasible path completed")
	}
	cov := map[string]interface{}{
		"states":                        max(totalPaths, 0),
		"transitions":                   totalDec,
		"traces_validated_against_impl": tracesValidated,
		"samples":                       samples,
		"evaluations":                   totalQ,
		"distinct_nontrivial":           totalPaths,
		"rule":                          "each explored case is one feasible path of the harness through the real SSA (an equivalence class of inputs: every symbolic byte/int ranges over all values consistent with the branch decisions); evaluations = SMT queries discharged; distinct_nontrivial = distinct feasible complete paths (each ends after passing at least one assertion site or being reported); states = feasible complete paths, transitions = branch decisions taken on them; traces_validated_against_impl = sample paths whose concrete model was re-run natively against the real build with go test -overlay and passed there too",
		"exhaustive":                    len(internal) == 0 && len(vacuous) == 0,
		"technique":                     "bounded symbolic execution of go/ssa with SMT (z3) path feasibility and assertion queries",
		"functions_encoded_repo":        repoFuncs,
		"functions_encoded_total":       len(fl),
		"bounds":                        pc.Bounds[*tier],
		"outside_the_claim":             pc.Outside,
		"oracle":                        pc.Oracle,
		"harness_runs":                  hev,
		"stubs":                         sym.StubList,
		"package_inits_executed":        prog.InitRun,
		"package_inits_skipped":         prog.InitSkipped,
		"package_inits_partial":         prog.InitPartial,
		"solver_time_s":                 totalSolver,
		"load_and_ssa_build_s":          loadS,
		"counterexamples_replayed":      confirmed,
		"counterexamples_not_reproduced": unconfirmed,
		"known_findings_hit":            knownLines,
		"inconclusive":                  internal,
		"vacuity":                       vacuous,
		"solver":                        "z3 4.8.12 (/usr/bin/z3 -in), one incremental process per worker",
	}
	ev := map[string]interface{}{
		"property_id": id,
		"tier":        *tier,
		"seed":        seed,
		"level":       "model_checking",
		"coverage":    cov,
		"assumptions": append(append([]string{}, pc.Assumptions...), "SSA built by golang.org/x/tools v0.29.0 from /repo's working tree at check time; stubs listed in coverage.stubs; Go run-time panics modelled for nil dereference, index/slice bounds, division by zero, closed-channel operations, failed type assertions"),
		"wall_s":      time.Since(t0).Seconds(),
		"violations":  len(violLines),
	}
	if !*keep {
		os.MkdirAll(filepath.Join(verifDir, "evidence"), 0o755)
		b, _ := json.MarshalIndent(ev, "", " ")
		if err := os.WriteFile(filepath.Join(verifDir, "evidence", id+".json"), b, 0o644); err != nil {
			fmt.Fprintln(os.Stderr, err)
			return 3
		}
	}
	fmt.Printf("%s %s: %d harness runs, %d feasible paths, %d SMT queries, solver %.1fs, wall %.1fs, exit %d\n", id, *tier, len(hev), totalPaths, totalQ, totalSolver, time.Since(t0).Seconds(), exit)
	return exit
}

func showValues(vals []sym.NondetRec) string {
	var parts []string
	for _, r := range vals {
		parts = append(parts, fmt.Sprintf("%s#%d=%v", r.Tag, r.Ord, r.V))
	}
	s := strings.Join(parts, " ")
	if len(s) > 400 {
		s = s[:400] + "..."
	}
	return s
}

func doReplay(id, path string) int {
	b, err := os.ReadFile(path)
	if err != nil {
		fmt.Fprintln(os.Stderr, err)
		return 3
	}
	var rf replayFile
	if err := json.Unmarshal(b, &rf); err != nil {
		fmt.Fprintln(os.Stderr, err)
		return 3
	}
	res, out, err := nativeReplay([]string{path}, []string{rf.Harness})
	if err != nil {
		fmt.Fprintln(os.Stderr, err)
		return 3
	}
	fmt.Print(out)
	if strings.HasPrefix(res[path], "FAIL") {
		fmt.Printf("VIOLATION property=%s replay=%s\n", id, path)
		return 1
	}
	return 0
}
