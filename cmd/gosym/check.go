package main

func cmdCheck(args []string) int { return 3 }
