package main

import (
	"bytes"
	"go/ast"
	"go/format"
	"go/parser"
	"go/token"
	"os"

	"golang.org/x/tools/go/ast/astutil"
)

// instrumentVisibleOps returns a copy of a Go source file in which every
// statement that performs a visible operation (channel send, receive, select,
// close) is preceded by verifYield(), every select clause starts with
// verifTook(<index>), `defer close(x)` becomes a deferred closure that yields
// first, and `go f(x)` becomes verifGoNative(func() { f(x) }) so that goroutines
// get the same numbers as the executor's threads. Used only for the
// schedule-directed native replay of counterexamples (go test -overlay).
func instrumentVisibleOps(path string) ([]byte, error) {
	src, err := os.ReadFile(path)
	if err != nil {
		return nil, err
	}
	fset := token.NewFileSet()
	f, err := parser.ParseFile(fset, path, src, parser.ParseComments)
	if err != nil {
		return nil, err
	}
	call := func(name string, args ...ast.Expr) *ast.ExprStmt {
		return &ast.ExprStmt{X: &ast.CallExpr{Fun: ast.NewIdent(name), Args: args}}
	}
	isClose := func(e ast.Expr) bool {
		c, ok := e.(*ast.CallExpr)
		if !ok {
			return false
		}
		id, ok := c.Fun.(*ast.Ident)
		return ok && id.Name == "close"
	}
	// does the statement itself (not nested blocks / function literals) perform a visible op?
	visible := func(s ast.Stmt) bool {
		switch x := s.(type) {
		case *ast.SelectStmt, *ast.SendStmt:
			return true
		case *ast.DeferStmt, *ast.GoStmt:
			_ = x
			return false
		}
		found := false
		ast.Inspect(s, func(n ast.Node) bool {
			switch y := n.(type) {
			case *ast.BlockStmt, *ast.FuncLit, *ast.SelectStmt:
				if n != ast.Node(s) {
					return false
				}
			case *ast.UnaryExpr:
				if y.Op == token.ARROW {
					found = true
				}
			case *ast.CallExpr:
				if isClose(y) {
					found = true
				}
			}
			return true
		})
		return found
	}
	astutil.Apply(f, func(c *astutil.Cursor) bool {
		switch n := c.Node().(type) {
		case *ast.DeferStmt:
			if isClose(n.Call) {
				n.Call = &ast.CallExpr{Fun: &ast.FuncLit{
					Type: &ast.FuncType{Params: &ast.FieldList{}},
					Body: &ast.BlockStmt{List: []ast.Stmt{call("verifYield"), &ast.ExprStmt{X: n.Call}}},
				}}
			}
		case *ast.GoStmt:
			if c.Index() >= 0 {
				c.Replace(call("verifGoNative", &ast.FuncLit{
					Type: &ast.FuncType{Params: &ast.FieldList{}},
					Body: &ast.BlockStmt{List: []ast.Stmt{&ast.ExprStmt{X: n.Call}}},
				}))
			}
		case *ast.CommClause:
			// index of this clause in its select
			if sel, ok := c.Parent().(*ast.BlockStmt); ok {
				for i, cl := range sel.List {
					if cl == ast.Stmt(n) {
						idx := ast.Expr(&ast.BasicLit{Kind: token.INT, Value: itoa(i)})
						if n.Comm == nil {
							// default clause: recorded as -2; the executor numbers the other clauses
							// without it, so clauses after a default shift down by one
							idx = &ast.UnaryExpr{Op: token.SUB, X: &ast.BasicLit{Kind: token.INT, Value: "2"}}
						} else {
							k := i
							for _, before := range sel.List[:i] {
								if cc, ok := before.(*ast.CommClause); ok && cc.Comm == nil {
									k--
								}
							}
							idx = &ast.BasicLit{Kind: token.INT, Value: itoa(k)}
						}
						n.Body = append([]ast.Stmt{call("verifTook", idx)}, n.Body...)
					}
				}
			}
		}
		return true
	}, func(c *astutil.Cursor) bool {
		if s, ok := c.Node().(ast.Stmt); ok && c.Index() >= 0 {
			if _, isClause := s.(*ast.CommClause); !isClause && visible(s) {
				c.InsertBefore(call("verifYield"))
			}
		}
		return true
	})
	var out bytes.Buffer
	if err := format.Node(&out, fset, f); err != nil {
		return nil, err
	}
	return out.Bytes(), nil
}

func itoa(i int) string {
	if i == 0 {
		return "0"
	}
	var b []byte
	for i > 0 {
		b = append([]byte{byte('0' + i%10)}, b...)
		i /= 10
	}
	return string(b)
}
