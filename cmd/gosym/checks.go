package main

func P(kv ...interface{}) map[string]int {
	m := map[string]int{}
	for i := 0; i+1 < len(kv); i += 2 {
		m[kv[i].(string)] = kv[i+1].(int)
	}
	return m
}

func each(params map[string]int, names ...string) []hrun {
	var r []hrun
	for _, n := range names {
		r = append(r, hrun{Harness: n, Params: params})
	}
	return r
}

var checks = map[string]*propCheck{}

func init() {
	c14 := []string{"vhC14NewID", "vhC14NewType", "vhC14MustID", "vhC14MustType", "vhC14UnmarshalText", "vhC14UnmarshalJSON", "vhC14Scan", "vhC14Upgrade", "vhC14MessageUnmarshal", "vhC14MessageUnmarshalTpl"}
	checks["C14"] = &propCheck{
		ID:       "C14",
		Quick:    each(P("N", 4), c14...),
		Thorough: each(P("N", 6), c14...),
		Bounds: map[string]string{
			"quick":    "every input string / byte slice / header value / wire text of length <= 4 bytes (all 256 values per byte), every construction route; templates id:/event: + <=4 symbolic bytes + every line terminator",
			"thorough": "same with length <= 6 bytes",
		},
		Outside: []string{"inputs longer than the bound", "what encoding/json actually decodes (json.Unmarshal is over-approximated: any string <= N bytes or an error)"},
		Oracle:  "IsSet() implies no CR/LF in String(); an input containing CR or LF leaves the value unset and the route's error non-nil; an accepted value is preserved byte for byte; a Message carrying the value encodes to a wire text whose id:/event: line holds exactly that value",
	}
}
