package main

func P(kv ...interface{}) map[string]int {
	m := map[string]int{}
	for i := 0; i+1 < len(kv); i += 2 {
		m[kv[i].(string)] = kv[i+1].(int)
	}
	return m
}

func each(params map[string]int, names ...string) []hrun {
	var r []hrun
	for _, n := range names {
		r = append(r, hrun{Harness: n, Params: params})
	}
	return r
}

var checks = map[string]*propCheck{}

func init() {
	c14 := []string{"vhC14NewID", "vhC14NewType", "vhC14MustID", "vhC14MustType", "vhC14UnmarshalText", "vhC14UnmarshalJSON", "vhC14Scan", "vhC14Upgrade", "vhC14MessageUnmarshal", "vhC14MessageUnmarshalTpl"}
	checks["C14"] = &propCheck{
		ID:       "C14",
		Quick:    each(P("N", 4), c14...),
		Thorough: each(P("N", 6), c14...),
		Bounds: map[string]string{
			"quick":    "every input string / byte slice / header value / wire text of length <= 4 bytes (all 256 values per byte), every construction route; templates id:/event: + <=4 symbolic bytes + every line terminator",
			"thorough": "same with length <= 6 bytes",
		},
		Outside: []string{"inputs longer than the bound", "what encoding/json actually decodes (json.Unmarshal is over-approximated: any string <= N bytes or an error)"},
		Oracle:  "IsSet() implies no CR/LF in String(); an input containing CR or LF leaves the value unset and the route's error non-nil; an accepted value is preserved byte for byte; a Message carrying the value encodes to a wire text whose id:/event: line holds exactly that value",
	}

	// ---- replayers: one inductive step from an arbitrary ring state ----
	finite := func(caps []int, topics int) []hrun {
		var r []hrun
		r = append(r, hrun{Harness: "vhC08New"})
		for _, c := range caps {
			for auto := 0; auto <= 1; auto++ {
				r = append(r, hrun{Harness: "vhC08Put", Params: P("CAP", c, "AUTO", auto, "TOPICS", topics)})
				r = append(r, hrun{Harness: "vhC08Replay", Params: P("CAP", c, "AUTO", auto, "TOPICS", topics), Covers: []string{"C08/Replay/newest-id", "C08/Replay/something-replayed", "C08/Replay/send-failure"}})
			}
		}
		return r
	}
	checks["C08"] = &propCheck{
		ID: "C08", Quick: finite([]int{2, 3}, 1), Thorough: finite([]int{2, 3, 4, 5}, 2),
		Labels: []string{"C08/"},
		Bounds: map[string]string{
			"quick":    "capacity N in {2,3}; pre-state: every (count, head) shape of the ring, manual IDs = pairwise distinct symbolic strings <= 2 bytes / automatic IDs first+k with first in {0,7,9,98}; one topic per entry and 1 topic per subscription (symbolic bytes); one Put (ID set/unset, 0-2 topics) or one Replay (ID unset / any string <= 2 bytes / the k-th buffered ID; symbolic failing Send index; Flush failing or not). By induction over the representation invariant: Put/Replay histories of any length for these capacities.",
			"thorough": "capacity N in {2,3,4,5}; up to 2 topics per entry and per subscription; otherwise as quick",
		},
		Outside: []string{"capacities above the bound (index arithmetic is uniform in N, but that is an argument, not a verdict)", "automatic IDs >= 1000 except through the chosen boundary values", "duplicate manual IDs", "an evicted automatic ID (the property leaves it open; go-sse replays everything buffered)"},
		Oracle:  "abstract list of the last N accepted entries: Put appends (dropping the oldest when full) or rejects leaving it unchanged; Replay sends exactly the entries after the presented ID whose topics intersect, in order, then flushes; invariant 0<=head,tail<N, tail=(head+count) mod N, slots outside the window zero",
	}
	valid := func(sizes, topics int) []hrun {
		var r []hrun
		r = append(r, hrun{Harness: "vhC09New"})
		for auto := 0; auto <= 1; auto++ {
			pp := P("AUTO", auto, "SIZES", sizes, "TOPICS", topics)
			r = append(r, hrun{Harness: "vhC09GC", Params: pp, Covers: []string{"C09/GC/collected-something"}})
			r = append(r, hrun{Harness: "vhC09Put", Params: pp, Covers: []string{"C09/Put/collects", "C09/Put/grow-or-first"}})
			r = append(r, hrun{Harness: "vhC09Replay", Params: pp, Covers: []string{"C09/Replay/newest-id", "C09/Replay/something-replayed"}})
		}
		return r
	}
	checks["C09"] = &propCheck{
		ID: "C09", Quick: valid(2, 1), Thorough: valid(3, 1),
		Labels: []string{"C09/"},
		Bounds: map[string]string{
			"quick":    "buffer length in {0,4}; every (count, head); TTL in [1, 2^40] ns, GCInterval in [-1, 2^41] ns, clock value and lastGC arbitrary 64-bit instants (now < 2^60, lastGC <= now or never); expiries arbitrary non-decreasing 64-bit instants <= now+TTL; one op of Put / Replay / GC with symbolic arguments; both ID modes. By induction: histories of any length within these buffer lengths (grow 0->4->8 occurs as a single Put).",
			"thorough": "buffer length in {0,4,8} (grow 4->8->16 and shrink 8->4 occur as single operations); otherwise as quick",
		},
		Outside: []string{"a clock that goes backwards", "saturation of time.Time.Sub / instants beyond 2^60 ns", "buffer lengths above the bound"},
		Oracle:  "abstract list with expiries: GC drops exactly the expired prefix; Put (after an optional collection exactly when GCInterval>0 and now-lastGC>=GCInterval) appends with expiry now+TTL and drops no unexpired entry; Replay sends exactly the later entries with exp>now whose topics intersect, never an expired one",
	}
	checks["C18"] = &propCheck{
		ID: "C18",
		Quick: append(each(P("CAP", 3, "AUTO", 0, "TOPICS", 1), "vhC08Put"), append(each(P("AUTO", 0, "SIZES", 3, "TOPICS", 1), "vhC09GC", "vhC09Put"), each(P("CAP", 2, "AUTO", 1, "TOPICS", 1), "vhC08Put")...)...),
		Thorough: append(each(P("CAP", 5, "AUTO", 0, "TOPICS", 1), "vhC08Put"), append(each(P("AUTO", 0, "SIZES", 4, "TOPICS", 1), "vhC09GC", "vhC09Put"), each(P("AUTO", 1, "SIZES", 4, "TOPICS", 1), "vhC09GC", "vhC09Put")...)...),
		Labels: []string{"C18/", "inv-dead-slots-are-zero", "holds-exactly-last-N", "drops-exactly-the-expired-prefix", "inv-"},
		Bounds: map[string]string{
			"quick":    "FiniteReplayer capacity 2-3, ValidReplayer buffer length in {0,4,8}: one Put/GC from every ring state; reachability decided on the executor's explicit heap (slices keep their whole backing array alive)",
			"thorough": "FiniteReplayer capacity 5, ValidReplayer buffer length in {0,4,8,16} (all grow and shrink steps)",
		},
		Outside: []string{"the Go garbage collector and finalizers themselves: 'unreachable in the executor's heap' is taken to imply collectable", "messages the caller still references"},
		Oracle:  "after the operation no evicted / collected message is reachable from the replayer value, every slot outside the live window is the zero value, and at most N messages are held",
	}
	checks["C19"] = &propCheck{
		ID: "C19",
		Quick: append([]hrun{{Harness: "vhC19Clone", Params: P("K", 3, "S", 1), Covers: []string{"C19/Clone/cloned"}}}, append(each(P("CAP", 2, "AUTO", 1, "TOPICS", 1), "vhC08Put"), each(P("AUTO", 1, "SIZES", 2, "TOPICS", 1), "vhC09Put")...)...),
		Thorough: append([]hrun{{Harness: "vhC19Clone", Params: P("K", 3, "S", 2), Covers: []string{"C19/Clone/cloned"}}, {Harness: "vhC19Clone", Params: P("K", 4, "S", 1), Covers: []string{"C19/Clone/cloned"}}}, append(each(P("CAP", 3, "AUTO", 1, "TOPICS", 1), "vhC08Put"), append(each(P("AUTO", 1, "SIZES", 3, "TOPICS", 1), "vhC09Put"), each(P("CAP", 3, "AUTO", 0, "TOPICS", 1), "vhC08Put")...)...)...),
		Labels: []string{"C19/", "caller-message-unchanged", "auto-id-set-on-a-copy", "copy-carries-same-content", "auto-id-next-decimal-on-copy", "auto-id-is-next-decimal"},
		Bounds: map[string]string{
			"quick":    "clone family of <= 3 messages starting from an arbitrary message (0-2 chunks, spare chunk capacity 0-2), every history of 3 operations from {AppendData, AppendComment (strings <= 1 symbolic byte), set ID/Type, set Retry, Clone} on any member; Put of a message into every FiniteReplayer (N=2) / ValidReplayer (len<=4) state in automatic-ID mode",
			"thorough": "histories of 3 operations with strings <= 2 bytes and of 4 operations with strings <= 1 byte; FiniteReplayer N=3 both modes, ValidReplayer len <= 8",
		},
		Outside: []string{"longer histories and strings", "append growth policies other than Go's (the spare capacity is made explicit in the pre-state instead)"},
		Oracle:  "the encodings (String) of all family members other than the one operated on are unchanged after every step; Put leaves the caller's message bit-identical and in automatic mode stores a distinct copy carrying the next decimal ID",
	}

	// ---- messages: encoding, decoding, byte accounting ----
	checks["C15"] = &propCheck{
		ID: "C15",
		Quick: []hrun{
			{Harness: "vhC15RoundTrip", Params: P("CALLS", 2, "N", 1, "RETRY", 2), Covers: []string{"C15/roundtrip", "C15/empty-message"}},
			{Harness: "vhC15RoundTrip", Params: P("CALLS", 1, "N", 2, "RETRY", 2), Covers: []string{"C15/roundtrip"}},
			{Harness: "vhC15Writer", Params: P("CALLS", 1, "N", 1, "RETRY", 2), Covers: []string{"C15/writer-failed"}},
			{Harness: "vhC15Retry", Params: P("RHIMS", 1000), Solver: "cvc5-int", Covers: []string{"C15/retry/written"}},
		},
		Thorough: []hrun{
			{Harness: "vhC15RoundTrip", Params: P("CALLS", 2, "N", 2, "RETRY", 2), Covers: []string{"C15/roundtrip", "C15/empty-message"}},
			{Harness: "vhC15RoundTrip", Params: P("CALLS", 3, "N", 1, "RETRY", 0), Covers: []string{"C15/roundtrip"}},
			{Harness: "vhC15Writer", Params: P("CALLS", 2, "N", 1, "RETRY", 2), Covers: []string{"C15/writer-failed"}},
			{Harness: "vhC15Writer", Params: P("CALLS", 1, "N", 2, "RETRY", 2), Covers: []string{"C15/writer-failed"}},
			{Harness: "vhC15Retry", Params: P("RFULL", 1), Solver: "cvc5-int", Covers: []string{"C15/retry/written"}},
		},
		Labels: []string{"C15/"},
		Bounds: map[string]string{
			"quick":    "messages built through the public API: <=2 AppendData/AppendComment calls in any order with strings <=1 byte (or 1 call, <=2 bytes), optional ID and type (strings of the same bound, kept if accepted, NUL-free IDs), Retry in {0,-1ns,1ms-1ns,1ms,MaxInt64,MinInt64}; failing writer: every Write call index as the failing one with every short count (symbolic); retry field alone: every duration in [-1ms, 1000ms) (cvc5 with bit-vectors solved as integers)",
			"thorough": "<=2 calls with strings <=2 bytes, <=3 calls with <=1 byte; failing writer with 2 calls; retry field alone: EVERY int64 duration (all 13 digit counts; the 13-byte buffer never overflows)",
		},
		Outside: []string{"longer strings / more Append calls than the bound", "IDs containing NUL (excluded by the property)"},
		Oracle:  "MarshalText, String and WriteTo(bytes.Buffer) byte-identical; UnmarshalText(MarshalText(m)) reproduces ID, type, retry truncated to ms and the ordered (content, isComment) list given by an independent line splitter; WriteTo on a failing writer returns exactly the accepted byte count and the writer's error, every Write is the next piece of the full encoding, no Write follows the failing one",
	}
	checks["C02"] = &propCheck{
		ID: "C02",
		Quick: []hrun{
			{Harness: "vhC02", Params: P("CALLS", 2, "N", 1, "MSGS", 1, "RETRY", 2), Covers: []string{"C02/some-data-event"}},
			{Harness: "vhC02", Params: P("CALLS", 1, "N", 2, "MSGS", 1, "RETRY", 2), Covers: []string{"C02/some-data-event"}},
			{Harness: "vhC02", Params: P("CALLS", 1, "N", 1, "MSGS", 2, "RETRY", 0), Covers: []string{"C02/some-data-event"}},
			{Harness: "vhC15Retry", Params: P("RHIMS", 1000), Solver: "cvc5-int"},
		},
		Thorough: []hrun{
			{Harness: "vhC02", Params: P("CALLS", 2, "N", 2, "MSGS", 1, "RETRY", 2), Covers: []string{"C02/some-data-event"}},
			{Harness: "vhC02", Params: P("CALLS", 1, "N", 3, "MSGS", 1, "RETRY", 0), Covers: []string{"C02/some-data-event"}},
			{Harness: "vhC02", Params: P("CALLS", 1, "N", 1, "MSGS", 2, "RETRY", 2), Covers: []string{"C02/some-data-event"}},
			{Harness: "vhC15Retry", Params: P("RFULL", 1), Solver: "cvc5-int"},
		},
		Labels: []string{"C02/", "C15/retry/"},
		Bounds: map[string]string{
			"quick":    "1 message with <=2 Append calls of strings <=1 byte or 1 call <=2 bytes, optional ID/type of the same bound, Retry boundary values; 2 concatenated messages with 1 call, strings <=1 byte; all 256 values per byte (CR, LF, colon, space, NUL, BOM bytes included)",
			"thorough": "1 message: 2 calls <=2 bytes, 1 call <=3 bytes; 2 messages with Retry boundary values; retry field for every int64 duration",
		},
		Outside: []string{"longer strings", "more than 2 concatenated messages except through the lemma 'every non-empty wire form ends in exactly one blank line, has no inner blank line and no CR' (asserted)"},
		Oracle:  "independent WHATWG interpreter in browser mode (dispatch only on non-empty data buffer) and go-sse's own Read over the concatenated wire forms: one event per message with data, Data = LF-join of the independently split lines of the appended strings, Type and most recent NUL-free ID as set",
	}

	checks["C16"] = &propCheck{
		ID: "C16",
		Quick: []hrun{
			{Harness: "vhC16Session", Params: P("K", 3), Covers: []string{"C16/Session/body-written", "C16/Session/failure-surfaced"}},
			{Harness: "vhC16Serve", Params: P("N", 3), Covers: []string{"C16/Serve/last-event-id-passed", "C16/Serve/rejected", "C16/Serve/subscribe-error"}},
		},
		Thorough: []hrun{
			{Harness: "vhC16Session", Params: P("K", 5), Covers: []string{"C16/Session/body-written", "C16/Session/failure-surfaced"}},
			{Harness: "vhC16Serve", Params: P("N", 5), Covers: []string{"C16/Serve/last-event-id-passed", "C16/Serve/rejected", "C16/Serve/subscribe-error"}},
		},
		Labels: []string{"C16/"},
		Bounds: map[string]string{
			"quick":    "every sequence of 3 Send/Flush operations over 3 message kinds (data, id+multi-line data, nothing to write), 8 ResponseWriter shapes (none, Flusher, FlushError, both, wrapped once/twice through Unwrap), the failing Write/flush call index symbolic (every position, or none); ServeHTTP: OnSession absent / nil / empty / 1-2 topics (symbolic) / rejecting, Last-Event-Id absent / any string <=3 bytes / two values, provider accepting or refusing",
			"thorough": "sequences of 5 operations; header values <=5 bytes",
		},
		Outside: []string{"real net/http ResponseWriters", "logging (Server.Logger == nil path only)", "http.Error is modelled as WriteHeader(code)+Write(msg)"},
		Oracle:  "monitor over the ordered log of Header/Write/flush/WriteHeader calls on a recording fault-injecting writer: Content-Type set and successfully flushed before the first body byte, upgrade only once, body = concatenation of the sent encodings (prefix at a failure), a successful Session.Flush is followed by a writer flush after the last write, the injected error is returned by the call where it happened; the Subscription seen by a recording Provider carries the right Last-Event-ID and topics; 500 when the writer cannot flush or the provider refuses",
	}

	checks["C13"] = &propCheck{
		ID: "C13",
		Quick:    []hrun{{Harness: "vhC13", Params: P("K", 5), Covers: []string{"C13/dispatched", "C13/removed"}}, {Harness: "vhC01Conn", Params: P("N", 3, "SEG", 0), Covers: []string{"C01/Conn/some-event"}}},
		Thorough: []hrun{{Harness: "vhC13", Params: P("K", 6), Covers: []string{"C13/dispatched", "C13/removed"}}, {Harness: "vhC01Conn", Params: P("N", 4, "SEG", 0), Covers: []string{"C01/Conn/some-event"}}},
		Labels:   []string{"C13/", "lock-discipline/", "C01/Conn/events-equal-spec", "C01/Conn/event-count"},
		Bounds: map[string]string{
			"quick":    "every history of 5 operations from {SubscribeEvent(type: symbolic string <=1 byte), SubscribeMessages, SubscribeToAll, call any earlier remover (also repeatedly / stale after re-subscription), dispatch an event of symbolic type <=1 byte}; during each dispatch a second goroutine may call any remover at any callback boundary and completes iff it can take the lock; lock discipline of callbacks/callbacksAll/callbackID checked on every access; stream order -> dispatch order through Connection.read for all streams <=3 bytes",
			"thorough": "histories of 6 operations; streams <=4 bytes",
		},
		Outside: []string{"true parallel executions and the race detector's view (decided here: the lock discipline on every sequential path plus unsubscription by a second goroutine at callback boundaries)", "callbacks that re-enter the Connection themselves", "Go's map iteration order is taken as insertion order (assertions are order-insensitive across callbacks)"},
		Oracle:  "flat list of (callback, kind, type, active, position of the log at which its remover returned): after every dispatch each active matching callback was invoked exactly once with the event, no other, and no callback is invoked at a log position after its remover returned",
	}
}
