package main

import (
	"sort"
	"strconv"
)

func P(kv ...interface{}) map[string]int {
	m := map[string]int{}
	for i := 0; i+1 < len(kv); i += 2 {
		m[kv[i].(string)] = kv[i+1].(int)
	}
	return m
}

func each(params map[string]int, names ...string) []hrun {
	var r []hrun
	for _, n := range names {
		r = append(r, hrun{Harness: n, Params: params})
	}
	return r
}

var checks = map[string]*propCheck{}

func init() {
	c14 := []string{"vhC14NewID", "vhC14NewType", "vhC14MustID", "vhC14MustType", "vhC14UnmarshalText", "vhC14UnmarshalJSON", "vhC14Scan", "vhC14Upgrade", "vhC14MessageUnmarshal", "vhC14MessageUnmarshalTpl", "vhC14MessageUnmarshalLines"}
	checks["C14"] = &propCheck{
		ID:       "C14",
		Quick:    each(P("N", 4), c14...),
		Thorough: each(P("N", 6), c14...),
		Bounds: map[string]string{
			"quick":    "every input string / byte slice / header value / wire text of length <= 4 bytes (all 256 values per byte), every construction route; templates id:/event: + <=4 symbolic bytes + every line terminator",
			"thorough": "same with length <= 6 bytes",
		},
		Outside: []string{"inputs longer than the bound", "what encoding/json actually decodes (json.Unmarshal is over-approximated: any string <= N bytes or an error)"},
		Oracle:  "IsSet() implies no CR/LF in String(); an input containing CR or LF leaves the value unset and the route's error non-nil; an accepted value is preserved byte for byte; a Message carrying the value encodes to a wire text whose id:/event: line holds exactly that value",
	}

	// ---- replayers: one inductive step from an arbitrary ring state ----
	finite := func(caps []int, topics int) []hrun {
		var r []hrun
		r = append(r, hrun{Harness: "vhC08New"})
		for _, c := range caps {
			for auto := 0; auto <= 1; auto++ {
				r = append(r, hrun{Harness: "vhC08Put", Params: P("CAP", c, "AUTO", auto, "TOPICS", topics, "FIRSTS", 4+8*auto)})
				r = append(r, hrun{Harness: "vhC08Replay", Params: P("CAP", c, "AUTO", auto, "TOPICS", topics), Covers: []string{"C08/Replay/newest-id", "C08/Replay/something-replayed", "C08/Replay/send-failure"}})
			}
		}
		return r
	}
	checks["C08"] = &propCheck{
		ID: "C08", Quick: append(finite([]int{2, 3}, 1),
			// two topics per event and per subscription: the intersection must not depend on positions
			hrun{Harness: "vhC08Replay", Params: P("CAP", 2, "AUTO", 0, "TOPICS", 2), Covers: []string{"C08/Replay/something-replayed"}}), Thorough: append(finite([]int{4}, 1), append(finite([]int{3}, 2), hrun{Harness: "vhC08Put", Params: P("CAP", 6, "AUTO", 1, "TOPICS", 1, "FIRSTS", 12)}, hrun{Harness: "vhC08Put", Params: P("CAP", 6, "AUTO", 0, "TOPICS", 1)})...),
		Labels: []string{"C08/"},
		Bounds: map[string]string{
			"quick":    "capacity N in {2,3}; pre-state: every (count, head) shape of the ring, manual IDs = pairwise distinct symbolic strings <= 2 bytes / automatic IDs first+k with first in {0,7,9,98}; one topic per entry and 1 topic per subscription (symbolic bytes); one Put (ID set/unset, 0-2 topics) or one Replay (ID unset / any string <= 2 bytes / the k-th buffered ID; symbolic failing Send index; Flush failing or not). By induction over the representation invariant: Put/Replay histories of any length for these capacities.",
			"thorough": "quick plus: capacity 4 (one topic), capacity 3 with up to 2 topics per entry and per subscription, Put alone at capacity 6",
		},
		Outside: []string{"capacities above the bound (index arithmetic is uniform in N, but that is an argument, not a verdict)", "automatic IDs >= 1000 except through the chosen boundary values", "duplicate manual IDs", "an evicted automatic ID (the property leaves it open; go-sse replays everything buffered)"},
		Oracle:  "abstract list of the last N accepted entries: Put appends (dropping the oldest when full) or rejects leaving it unchanged; Replay sends exactly the entries after the presented ID whose topics intersect, in order, then flushes; invariant 0<=head,tail<N, tail=(head+count) mod N, slots outside the window zero",
	}
	valid := func(sizes, topics int) []hrun {
		var r []hrun
		r = append(r, hrun{Harness: "vhC09New"})
		for auto := 0; auto <= 1; auto++ {
			pp := P("AUTO", auto, "SIZES", sizes, "TOPICS", topics)
			r = append(r, hrun{Harness: "vhC09GC", Params: pp, Covers: []string{"C09/GC/collected-something"}})
			r = append(r, hrun{Harness: "vhC09Put", Params: pp, Covers: []string{"C09/Put/collects", "C09/Put/grow-or-first"}})
			r = append(r, hrun{Harness: "vhC09Replay", Params: pp, Covers: []string{"C09/Replay/newest-id", "C09/Replay/something-replayed"}})
		}
		return r
	}
	checks["C09"] = &propCheck{
		ID: "C09", Quick: append(valid(2, 1), hrun{Harness: "vhC09GC", Params: P("AUTO", 0, "SIZES", 3, "TOPICS", 1), Covers: []string{"C09/GC/collected-something"}},
			// through the public API only, from the initial state: histories of 5 operations with symbolic clock advances
			hrun{Harness: "vhC09History", Params: P("K", 5, "AUTO", 0), Covers: []string{"C09/History/replayed"}},
			hrun{Harness: "vhC09History", Params: P("K", 5, "AUTO", 1), Covers: []string{"C09/History/replayed"}}),
		Thorough: []hrun{
			{Harness: "vhC09GC", Params: P("AUTO", 0, "SIZES", 3, "TOPICS", 1), Covers: []string{"C09/GC/collected-something"}},
			{Harness: "vhC09GC", Params: P("AUTO", 1, "SIZES", 3, "TOPICS", 1), Covers: []string{"C09/GC/collected-something"}},
			{Harness: "vhC09Put", Params: P("AUTO", 0, "SIZES", 3, "TOPICS", 1), Covers: []string{"C09/Put/collects", "C09/Put/grow-or-first"}},
			{Harness: "vhC09Put", Params: P("AUTO", 1, "SIZES", 3, "TOPICS", 1), Covers: []string{"C09/Put/collects", "C09/Put/grow-or-first"}},
			{Harness: "vhC09Replay", Params: P("AUTO", 0, "SIZES", 3, "TOPICS", 1, "MAXCOUNT", 3), Covers: []string{"C09/Replay/newest-id", "C09/Replay/something-replayed"}},
			{Harness: "vhC09Replay", Params: P("AUTO", 1, "SIZES", 3, "TOPICS", 1, "MAXCOUNT", 3), Covers: []string{"C09/Replay/newest-id", "C09/Replay/something-replayed"}},
			{Harness: "vhC09GC", Params: P("AUTO", 0, "SIZES", 2, "TOPICS", 2), Covers: []string{"C09/GC/collected-something"}},
		},
		Labels: []string{"C09/"},
		Bounds: map[string]string{
			"quick":    "buffer length in {0,4}; every (count, head); TTL in [1, 2^40] ns, GCInterval in [-1, 2^41] ns, clock value and lastGC arbitrary 64-bit instants (now < 2^60, lastGC <= now or never); expiries arbitrary non-decreasing 64-bit instants <= now+TTL; one op of Put / Replay / GC with symbolic arguments; both ID modes. By induction: histories of any length within these buffer lengths (grow 0->4->8 occurs as a single Put).",
			"thorough": "quick plus: buffer length in {0,4,8} (grow 4->8->16 and shrink 8->4 occur as single operations) for Put and GC; Replay from buffers of length 8 holding <=3 events; 2 topics per event for GC",
		},
		Outside: []string{"a clock that goes backwards", "saturation of time.Time.Sub / instants beyond 2^60 ns", "buffer lengths above the bound"},
		Oracle:  "abstract list with expiries: GC drops exactly the expired prefix; Put (after an optional collection exactly when GCInterval>0 and now-lastGC>=GCInterval) appends with expiry now+TTL and drops no unexpired entry; Replay sends exactly the later entries with exp>now whose topics intersect, never an expired one",
	}
	checks["C18"] = &propCheck{
		ID: "C18",
		Quick: append(append(each(P("CAP", 3, "AUTO", 0, "TOPICS", 1), "vhC08Put"), append(each(P("AUTO", 0, "SIZES", 3, "TOPICS", 1), "vhC09GC", "vhC09Put"), each(P("CAP", 2, "AUTO", 1, "TOPICS", 1), "vhC08Put")...)...),
			// a Replay to a failing client first: it must leave nothing behind that keeps evicted/collected messages alive
			hrun{Harness: "vhC08Put", Params: P("CAP", 3, "AUTO", 1, "TOPICS", 1, "PREREPLAY", 1, "FIRSTS", 3)},
			hrun{Harness: "vhC09GC", Params: P("AUTO", 0, "SIZES", 2, "TOPICS", 1, "PREREPLAY", 1, "MAXCOUNT", 2)},
			// ... and a Replay at the current clock value, when a prefix may already have expired
			hrun{Harness: "vhC09GC", Params: P("AUTO", 0, "SIZES", 2, "TOPICS", 1, "PREREPLAY", 2, "MAXCOUNT", 2)},
			// through the public constructor, capacities 2..17 (also beyond any internal initial size): N+3 Puts
			hrun{Harness: "vhC18FiniteHistory", Covers: []string{"C18/FiniteHistory/ran"}},
			hrun{Harness: "vhC09History", Params: P("K", 5, "AUTO", 0), Covers: []string{"C09/History/replayed"}}),
		Thorough: append(append(each(P("CAP", 5, "AUTO", 0, "TOPICS", 1), "vhC08Put"), append(each(P("AUTO", 0, "SIZES", 4, "TOPICS", 1), "vhC09GC"), each(P("AUTO", 1, "SIZES", 4, "TOPICS", 1), "vhC09GC")...)...),
			hrun{Harness: "vhC09Put", Params: P("AUTO", 1, "SIZES", 3, "TOPICS", 1)},
			hrun{Harness: "vhC09GC", Params: P("AUTO", 0, "SIZES", 2, "TOPICS", 1, "PREREPLAY", 1)},
			hrun{Harness: "vhC09Put", Params: P("AUTO", 1, "SIZES", 2, "TOPICS", 1, "PREREPLAY", 1)}),
		Labels: []string{"C18/", "C09/History/", "inv-dead-slots-are-zero", "holds-exactly-last-N", "drops-exactly-the-expired-prefix", "inv-", "gc-interval-not-restarted", "collection-time-recorded", "appends-and-drops-no-unexpired"},
		Bounds: map[string]string{
			"quick":    "FiniteReplayer capacity 2-3, ValidReplayer buffer length in {0,4,8}: one Put/GC from every ring state; reachability decided on the executor's explicit heap (slices keep their whole backing array alive)",
			"thorough": "quick plus: FiniteReplayer capacity 5; ValidReplayer GC from buffers of length {0,4,8,16} (all shrink steps), Put with automatic IDs from lengths {0,4,8}; the Replay-then-Put/GC runs without the count bound",
		},
		Outside: []string{"the Go garbage collector and finalizers themselves: 'unreachable in the executor's heap' is taken to imply collectable", "messages the caller still references"},
		Oracle:  "after the operation no evicted / collected message is reachable from the replayer value, every slot outside the live window is the zero value, and at most N messages are held",
	}
	checks["C19"] = &propCheck{
		ID: "C19",
		Quick: append([]hrun{{Harness: "vhC19Clone", Params: P("K", 3, "S", 1), Covers: []string{"C19/Clone/cloned"}},
			// caller-provided IDs (any single-line string, NUL included): the stored message is the caller's, untouched
			{Harness: "vhC08Put", Params: P("CAP", 2, "AUTO", 0, "TOPICS", 1)}, {Harness: "vhC09Put", Params: P("AUTO", 0, "SIZES", 2, "TOPICS", 1, "MAXCOUNT", 2)}},
			append(each(P("CAP", 2, "AUTO", 1, "TOPICS", 1, "FIRSTS", 12), "vhC08Put"), each(P("AUTO", 1, "SIZES", 2, "TOPICS", 1, "FIRSTS", 4), "vhC09Put")...)...),
		Thorough: append([]hrun{{Harness: "vhC19Clone", Params: P("K", 3, "S", 2), Covers: []string{"C19/Clone/cloned"}}, {Harness: "vhC19Clone", Params: P("K", 4, "S", 1), Covers: []string{"C19/Clone/cloned"}}}, append(each(P("CAP", 3, "AUTO", 1, "TOPICS", 1), "vhC08Put"), append(each(P("AUTO", 1, "SIZES", 3, "TOPICS", 1), "vhC09Put"), each(P("CAP", 3, "AUTO", 0, "TOPICS", 1), "vhC08Put")...)...)...),
		Labels: []string{"C19/", "rejected-does-not-consume-id", "caller-message-unchanged", "auto-id-set-on-a-copy", "copy-carries-same-content", "auto-id-next-decimal-on-copy", "auto-id-is-next-decimal"},
		Bounds: map[string]string{
			"quick":    "clone family of <= 3 messages starting from an arbitrary message (0-2 chunks, spare chunk capacity 0-2), every history of 3 operations from {AppendData, AppendComment (strings <= 1 symbolic byte), set ID/Type, set Retry, Clone} on any member; Put of a message into every FiniteReplayer (N=2) / ValidReplayer (len<=4) state in automatic-ID mode",
			"thorough": "histories of 3 operations with strings <= 2 bytes and of 4 operations with strings <= 1 byte; FiniteReplayer N=3 both modes, ValidReplayer len <= 8",
		},
		Outside: []string{"longer histories and strings", "append growth policies other than Go's (the spare capacity is made explicit in the pre-state instead)"},
		Oracle:  "the encodings (String) of all family members other than the one operated on are unchanged after every step; Put leaves the caller's message bit-identical and in automatic mode stores a distinct copy carrying the next decimal ID",
	}

	// ---- messages: encoding, decoding, byte accounting ----
	checks["C15"] = &propCheck{
		ID: "C15",
		Quick: []hrun{
			{Harness: "vhC15RoundTrip", Params: P("CALLS", 2, "N", 1, "RETRY", 2), Covers: []string{"C15/roundtrip", "C15/empty-message"}},
			{Harness: "vhC15RoundTrip", Params: P("CALLS", 1, "N", 2, "RETRY", 2), Covers: []string{"C15/roundtrip"}},
			{Harness: "vhC15Writer", Params: P("CALLS", 1, "N", 1, "RETRY", 2), Covers: []string{"C15/writer-failed"}},
			{Harness: "vhC15Retry", Params: P("RHIMS", 1000), Solver: "cvc5-int", Covers: []string{"C15/retry/written"}},
			{Harness: "vhC15Long", Params: P("LONGMAX", 300)},
			// a writer that encodes another message inside one of its Write calls: the encoders share no state
			{Harness: "vhC15Reentrant", Covers: []string{"C15/nested/ran"}},
		},
		Thorough: []hrun{
			{Harness: "vhC15Long", Params: P("LONGMAX", 5000)},
			{Harness: "vhC15RoundTrip", Params: P("CALLS", 2, "N", 2, "RETRY", 2), Covers: []string{"C15/roundtrip", "C15/empty-message"}},
			{Harness: "vhC15RoundTrip", Params: P("CALLS", 3, "N", 1, "RETRY", 0), Covers: []string{"C15/roundtrip"}},
			{Harness: "vhC15Writer", Params: P("CALLS", 2, "N", 1, "RETRY", 2), Covers: []string{"C15/writer-failed"}},
			{Harness: "vhC15Writer", Params: P("CALLS", 1, "N", 2, "RETRY", 2), Covers: []string{"C15/writer-failed"}},
			{Harness: "vhC15Retry", Params: P("RFULL", 1), Solver: "cvc5-int", Covers: []string{"C15/retry/written"}},
		},
		Labels: []string{"C15/"},
		Bounds: map[string]string{
			"quick":    "messages built through the public API: <=2 AppendData/AppendComment calls in any order with strings <=1 byte (or 1 call, <=2 bytes), optional ID and type (strings of the same bound, kept if accepted, NUL-free IDs), Retry in {0,-1ns,1ms-1ns,1ms,MaxInt64,MinInt64}; failing writer: every Write call index as the failing one with every short count (symbolic); retry field alone: every duration in [-1ms, 1000ms) (cvc5 with bit-vectors solved as integers)",
			"thorough": "<=2 calls with strings <=2 bytes, <=3 calls with <=1 byte; failing writer with 2 calls; retry field alone: EVERY int64 duration (all 13 digit counts; the 13-byte buffer never overflows)",
		},
		Outside: []string{"longer strings / more Append calls than the bound", "IDs containing NUL (excluded by the property)"},
		Oracle:  "MarshalText, String and WriteTo(bytes.Buffer) byte-identical; UnmarshalText(MarshalText(m)) reproduces ID, type, retry truncated to ms and the ordered (content, isComment) list given by an independent line splitter; WriteTo on a failing writer returns exactly the accepted byte count and the writer's error, every Write is the next piece of the full encoding, no Write follows the failing one",
	}
	checks["C02"] = &propCheck{
		ID: "C02",
		Quick: []hrun{
			{Harness: "vhC02", Params: P("CALLS", 2, "N", 1, "MSGS", 1, "RETRY", 2), Covers: []string{"C02/some-data-event"}},
			{Harness: "vhC02", Params: P("CALLS", 1, "N", 2, "MSGS", 1, "RETRY", 2), Covers: []string{"C02/some-data-event"}},
			{Harness: "vhC02", Params: P("CALLS", 1, "N", 1, "MSGS", 2, "RETRY", 0), Covers: []string{"C02/some-data-event"}},
			{Harness: "vhC15Retry", Params: P("RHIMS", 1000), Solver: "cvc5-int"},
			{Harness: "vhC15Long", Params: P("LONGMAX", 300)},
			{Harness: "vhC01SmallBufRead", Params: P("L", 16)},
			// messages built by cloning and appending: a clone's lines must not leak into its siblings
			{Harness: "vhC19Clone", Params: P("K", 3, "S", 1), Covers: []string{"C19/Clone/cloned"}},
		},
		Thorough: []hrun{
			{Harness: "vhC15Long", Params: P("LONGMAX", 5000)},
			{Harness: "vhC02", Params: P("CALLS", 2, "N", 2, "MSGS", 1, "RETRY", 2), Covers: []string{"C02/some-data-event"}},
			{Harness: "vhC02", Params: P("CALLS", 1, "N", 3, "MSGS", 1, "RETRY", 0), Covers: []string{"C02/some-data-event"}},
			{Harness: "vhC15Retry", Params: P("RFULL", 1), Solver: "cvc5-int"},
		},
		Labels: []string{"C02/", "C15/retry/", "C15/long/", "C01/SmallBuf", "C19/Clone"},
		Bounds: map[string]string{
			"quick":    "1 message with <=2 Append calls of strings <=1 byte or 1 call <=2 bytes, optional ID/type of the same bound, Retry boundary values; 2 concatenated messages with 1 call, strings <=1 byte; all 256 values per byte (CR, LF, colon, space, NUL, BOM bytes included)",
			"thorough": "quick plus: 1 message: 2 calls <=2 bytes, 1 call <=3 bytes; retry field for every int64 duration; one line of every length <=5000",
		},
		Outside: []string{"longer strings", "more than 2 concatenated messages except through the lemma 'every non-empty wire form ends in exactly one blank line, has no inner blank line and no CR' (asserted)"},
		Oracle:  "independent WHATWG interpreter in browser mode (dispatch only on non-empty data buffer) and go-sse's own Read over the concatenated wire forms: one event per message with data, Data = LF-join of the independently split lines of the appended strings, Type and most recent NUL-free ID as set",
	}

	checks["C16"] = &propCheck{
		ID: "C16",
		Quick: []hrun{
			{Harness: "vhC16Session", Params: P("K", 3), Covers: []string{"C16/Session/body-written", "C16/Session/failure-surfaced"}},
			{Harness: "vhC16Serve", Params: P("N", 3), Covers: []string{"C16/Serve/last-event-id-passed", "C16/Serve/rejected", "C16/Serve/subscribe-error"}},
			// a message whose single data line is 1024 bytes long (a typical batching threshold)
			{Harness: "vhC16Session", Params: P("K", 2, "LONG", 1024), Covers: []string{"C16/Session/body-written"}},
		},
		Thorough: []hrun{
			{Harness: "vhC16Session", Params: P("K", 3, "LONG", 1024), Covers: []string{"C16/Session/body-written"}},
			{Harness: "vhC16Session", Params: P("K", 2, "LONG", 4096), Covers: []string{"C16/Session/body-written"}},
			{Harness: "vhC16Session", Params: P("K", 5), Covers: []string{"C16/Session/body-written", "C16/Session/failure-surfaced"}},
			{Harness: "vhC16Serve", Params: P("N", 5), Covers: []string{"C16/Serve/last-event-id-passed", "C16/Serve/rejected", "C16/Serve/subscribe-error"}},
		},
		Labels: []string{"C16/"},
		Bounds: map[string]string{
			"quick":    "every sequence of 3 Send/Flush operations over 3 message kinds (data, id+multi-line data, nothing to write), 8 ResponseWriter shapes (none, Flusher, FlushError, both, wrapped once/twice through Unwrap), the failing Write/flush call index symbolic (every position, or none); ServeHTTP: OnSession absent / nil / empty / 1-2 topics (symbolic) / rejecting, Last-Event-Id absent / any string <=3 bytes / two values, provider accepting or refusing",
			"thorough": "sequences of 5 operations; header values <=5 bytes",
		},
		Outside: []string{"real net/http ResponseWriters", "logging (Server.Logger == nil path only)", "http.Error is modelled as WriteHeader(code)+Write(msg)"},
		Oracle:  "monitor over the ordered log of Header/Write/flush/WriteHeader calls on a recording fault-injecting writer: Content-Type set and successfully flushed before the first body byte, upgrade only once, body = concatenation of the sent encodings (prefix at a failure), a successful Session.Flush is followed by a writer flush after the last write, the injected error is returned by the call where it happened; the Subscription seen by a recording Provider carries the right Last-Event-ID and topics; 500 when the writer cannot flush or the provider refuses",
	}

	checks["C13"] = &propCheck{
		ID: "C13",
		Quick:    []hrun{{Harness: "vhC13", Params: P("K", 5, "TYPEKINDS", 1), Covers: []string{"C13/dispatched", "C13/removed"}}, {Harness: "vhC13", Params: P("K", 4, "TYPEKINDS", 3), Covers: []string{"C13/dispatched", "C13/removed"}}, {Harness: "vhC01Conn", Params: P("N", 3, "SEG", 0), Covers: []string{"C01/Conn/some-event"}},
			// one of the callbacks cancels the request context when it sees an event
			{Harness: "vhC13", Params: P("K", 3, "TYPEKINDS", 1, "CTXCANCEL", 1), Covers: []string{"C13/dispatched"}},
			// two goroutines: a dispatch in progress (holding the lock inside a callback) and an unsubscribe; mutex
			// acquisitions are scheduling points here, every interleaving is explored
			{Harness: "vhC13Threads", Params: P("LOCKSCHED", 1), Covers: []string{"C13/Threads/ran"}, Threads: true, Stress: 50, NoNative: true, MaxSteps: 20000000},
			{Harness: "vhC13ThreadsSub", Params: P("LOCKSCHED", 1), Covers: []string{"C13/Threads/ran"}, Threads: true, Stress: 2000, NoNative: true, MaxSteps: 20000000},
			// the type an event is dispatched under: named events without data followed by unnamed ones
			{Harness: "vhC01SmallBufConn", Params: P("L", 16)}},
		Thorough: []hrun{{Harness: "vhC13", Params: P("K", 4, "TYPEKINDS", 1, "CTXCANCEL", 1), Covers: []string{"C13/dispatched"}}, {Harness: "vhC13", Params: P("K", 5, "TYPEKINDS", 3), Covers: []string{"C13/dispatched", "C13/removed"}}, {Harness: "vhC13", Params: P("K", 6, "TYPEKINDS", 1), Covers: []string{"C13/dispatched", "C13/removed"}}, {Harness: "vhC01Conn", Params: P("N", 4, "SEG", 0), Covers: []string{"C01/Conn/some-event"}}},
		Labels:   []string{"C13/", "lock-discipline/", "C01/Conn/events-equal-spec", "C01/Conn/event-count", "C01/SmallBufConn/events-equal-spec", "C01/SmallBufConn/event-count"},
		Bounds: map[string]string{
			"quick":    "every history of 5 operations from {SubscribeEvent(type: symbolic string <=1 byte), SubscribeMessages, SubscribeToAll, call any earlier remover (also repeatedly / stale after re-subscription), dispatch an event of symbolic type <=1 byte}; during each dispatch a second goroutine may call any remover at any callback boundary and completes iff it can take the lock; lock discipline of callbacks/callbacksAll/callbackID checked on every access; stream order -> dispatch order through Connection.read for all streams <=3 bytes",
			"thorough": "histories of 6 operations; streams <=4 bytes",
		},
		Outside: []string{"true parallel executions and the race detector's view (decided here: the lock discipline on every sequential path plus unsubscription by a second goroutine at callback boundaries)", "callbacks that re-enter the Connection themselves", "Go's map iteration order is taken as insertion order (assertions are order-insensitive across callbacks)"},
		Oracle:  "flat list of (callback, kind, type, active, position of the log at which its remover returned): after every dispatch each active matching callback was invoked exactly once with the event, no other, and no callback is invoked at a log position after its remover returned",
	}

	c20 := func(lims []int, n int, seg int) []hrun {
		var r []hrun
		for _, l := range lims {
			r = append(r, hrun{Harness: "vhC20Read", Params: P("L", l, "N", n, "SEG", seg), Covers: []string{"C20/Read/too-long", "C20/Read/all-fit"}})
			r = append(r, hrun{Harness: "vhC20Conn", Params: P("L", l, "N", n, "SEG", seg, "BUFMAX", l+1), Covers: []string{"C20/Conn/too-long", "C20/Conn/all-fit"}})
		}
		// the limit given by the caller's buffer alone: Connection.Buffer(buf, 0)
		r = append(r, hrun{Harness: "vhC20Conn", Params: P("L", 0, "N", n-1, "SEG", seg, "BUFMAX", 3), Covers: []string{"C20/Conn/too-long", "C20/Conn/all-fit"}})
		// the limit still holds on a later connection of the same Connection (reconnect)
		r = append(r, hrun{Harness: "vhC20Conn", Params: P("L", 3, "N", n-1, "SEG", seg, "BUFMAX", 2, "TWICE", 1), Covers: []string{"C20/Conn/too-long", "C20/Conn/all-fit"}})
		// values stay intact across buffer compaction/refill
		r = append(r, hrun{Harness: "vhC01SmallBufRead", Params: P("L", 16)}, hrun{Harness: "vhC01SmallBufConn", Params: P("L", 16)})
		// a whole connection attempt reads no more than the limit from the body
		r = append(r, hrun{Harness: "vhC20Connect", Params: P("L", 4)}, hrun{Harness: "vhC20Connect", Params: P("L", 16)})
		// "unlimited" configurations: no call panics, nothing is allocated up front
		r = append(r, hrun{Harness: "vhC20Huge", Covers: []string{"C20/Huge/ran"}})
		// small events delivered completely whatever the way the stream ends (last bytes together with io.EOF)
		r = append(r, hrun{Harness: "vhC01TwoEventsRead", Covers: []string{"C01/TwoEventsRead/some-event"}})
		return r
	}
	checks["C20"] = &propCheck{
		ID: "C20", Quick: c20([]int{2, 3, 4}, 5, 1), Thorough: append(c20([]int{5}, 6, 1), c20([]int{6}, 8, 0)...),
		Labels: []string{"C20/", "C01/SmallBuf", "C01/TwoEventsRead", "panic:"},
		Bounds: map[string]string{
			"quick":    "limit L in {2,3,4} through ReadConfig.MaxEventSize and through Connection.Buffer(buf, L) with an initial buffer of every capacity 0..L+1 (or nil); every stream <=5 bytes (all byte values), every segmentation into read chunks; the real bufio.Scanner buffer growth/compaction logic runs with these small numbers",
			"thorough": "quick plus: L = 5 with streams <=6 bytes and all segmentations; L = 6 with streams <=8 bytes in one chunk",
		},
		Outside: []string{"the default 4 KiB start and 64 KiB limit themselves (same scanner code with larger constants - not decided here)", "allocation failure"},
		Oracle:  "independent tokenisation of the stream (blank lines + event + terminating blank line): a token longer than the effective limit max(L, cap(buf)) must yield bufio.ErrTooLong after exactly the events of the earlier tokens and at most limit bytes read beyond the last completed token; if every token is smaller than the limit, no ErrTooLong and the events equal the WHATWG oracle's; at the boundary either, but never a truncated or altered event; no Go panic on any path",
	}

	checks["C01"] = &propCheck{
		ID: "C01",
		Quick: []hrun{
			{Harness: "vhC01Read", Params: P("N", 4, "SEG", 1, "STOP", 1), Covers: []string{"C01/Read/some-event", "C01/Read/stopped-early"}},
			{Harness: "vhC01Read", Params: P("N", 7, "SEG", 0, "STOP", 0), Covers: []string{"C01/Read/some-event"}},
			{Harness: "vhC01Conn", Params: P("N", 4, "SEG", 1), Covers: []string{"C01/Conn/some-event"}},
			{Harness: "vhC01Conn", Params: P("N", 6, "SEG", 0), Covers: []string{"C01/Conn/some-event"}},
			{Harness: "vhC01ReadTpl", Params: P("LINES", 1, "HOLE", 2), Covers: []string{"C01/ReadTpl/some-event"}},
			{Harness: "vhC01ConnTpl", Params: P("LINES", 1, "HOLE", 2), Covers: []string{"C01/ConnTpl/some-event", "C01/ConnTpl/some-retry"}},
			{Harness: "vhC01ReadTpl", Params: P("LINES", 2, "HOLE", 0), Covers: []string{"C01/ReadTpl/some-event"}},
			{Harness: "vhC01ReadTpl", Params: P("LINES", 2, "HOLE", 0, "BYTEWISE", 1), Covers: []string{"C01/ReadTpl/some-event"}},
			{Harness: "vhC01ConnTpl", Params: P("LINES", 2, "HOLE", 0, "BYTEWISE", 1, "PREFIXES", 1), Covers: []string{"C01/ConnTpl/some-event"}},
			{Harness: "vhC01TwoEventsRead", Covers: []string{"C01/TwoEventsRead/some-event"}},
			{Harness: "vhC01TwoEventsConn", Covers: []string{"C01/TwoEventsConn/some-event"}},
			{Harness: "vhC01SmallBufRead", Params: P("L", 16), Covers: []string{"C01/SmallBufRead/some-event"}},
			{Harness: "vhC01SmallBufConn", Params: P("L", 16), Covers: []string{"C01/SmallBufConn/some-event"}},
			{Harness: "vhC01ConnTpl", Params: P("LINES", 3, "HOLE", 0, "NAMES", 2, "PREFIXES", 1), Covers: []string{"C01/ConnTpl/some-event"}},
			// the end condition when the reader fails (a read error, also one that wraps io.EOF, is not a clean end)
			{Harness: "vhC11Read", Params: P("N", 4, "SEG", 1), Covers: []string{"C11/Read/failing-reader"}},
			{Harness: "vhC11ConnRead", Params: P("N", 3, "SEG", 1), Covers: []string{"C11/ConnRead/failing-reader"}},
		},
		Thorough: []hrun{
			{Harness: "vhC01ConnTpl", Params: P("LINES", 3, "HOLE", 0, "NAMES", 3, "PREFIXES", 1), Covers: []string{"C01/ConnTpl/some-event"}},
			{Harness: "vhC01Read", Params: P("N", 6, "SEG", 1, "STOP", 1), Covers: []string{"C01/Read/some-event", "C01/Read/stopped-early"}},
			{Harness: "vhC01Read", Params: P("N", 5, "SEG", 1, "STOP", 0, "EOFWITH", 1), Covers: []string{"C01/Read/some-event"}},
			{Harness: "vhC01Read", Params: P("N", 9, "SEG", 0, "STOP", 0), Covers: []string{"C01/Read/some-event"}},
			{Harness: "vhC01Conn", Params: P("N", 5, "SEG", 1), Covers: []string{"C01/Conn/some-event"}},
			{Harness: "vhC01Conn", Params: P("N", 8, "SEG", 0), Covers: []string{"C01/Conn/some-event"}},
			{Harness: "vhC01ReadTpl", Params: P("LINES", 2, "HOLE", 1), Covers: []string{"C01/ReadTpl/some-event"}},
			{Harness: "vhC01ConnTpl", Params: P("LINES", 1, "HOLE", 3), Covers: []string{"C01/ConnTpl/some-event", "C01/ConnTpl/some-retry"}},
		},
		Labels: []string{"C01/", "C11/Read/", "C11/ConnRead/", "panic:"},
		Bounds: map[string]string{
			"quick":    "every byte string <=4 bytes x every segmentation into read chunks x early stop after 0/1/2 events (Read) and x initial last-event-ID <=1 byte (Connection); every byte string <=7 (Read) / <=6 (Connection) bytes delivered in one chunk; templates: prefix in {none, BOM, LF BOM, CRLF BOM} + one line (name in {data,event,id,retry,'',dat,datas}, optional ':' / ': ', hole of <=2 symbolic bytes) + terminator in {LF,CR,CRLF,none} + tail in {none,LF,CRLF}; all two-line templates without holes; all three-line templates over {data,event} without holes; a 16-byte scanner buffer with streams id:<byte> event:<byte> + 1-2 data events in chunks of {1, half, all that fits} (buffer compaction and refill between events)",
			"thorough": "all strings <=6 bytes x all segmentations (Read) / <=5 (Connection); <=9 / <=8 bytes in one chunk; EOF delivered together with the last bytes; two-line templates with 1-byte holes, one-line templates with 3-byte holes",
		},
		Outside: []string{"streams longer than the bound that match no template", "events straddling the real 4 KiB / 64 KiB scanner buffers (C20 decides the same scanner logic at small limits)", "decoding of invalid UTF-8 to U+FFFD (oracle and go-sse are byte-transparent)", "retry values with more digits than the bound"},
		Oracle:  "harness/sse_oracle.go vhSpecInterpret: one pass over the complete byte string following HTML 9.2.5-9.2.6 with go-sse's three documented adaptations; compared on (event list, error identity, retry-callback values and their position among events, stored last event ID)",
	}
	checks["C11"] = &propCheck{
		ID: "C11",
		Quick: []hrun{
			{Harness: "vhC11Read", Params: P("N", 4, "SEG", 1), Covers: []string{"C11/Read/failing-reader"}},
			{Harness: "vhC11ConnRead", Params: P("N", 4, "SEG", 1), Covers: []string{"C11/ConnRead/failing-reader"}},
			{Harness: "vhC11ConnRead", Params: P("N", 6, "SEG", 0), Covers: []string{"C11/ConnRead/failing-reader"}},
			{Harness: "vhC11Connect", Params: P("A", 2, "CANCEL", 1, "BODYKINDS", 1, "TPLMASK", 7), Covers: []string{"C11/Connect/cancelled", "C11/Connect/retries-exhausted", "C11/Connect/validator-rejected"}, NoNative: true},
			{Harness: "vhC11Connect", Params: P("A", 3, "CANCEL", 0, "BODYKINDS", 1, "TPLMASK", 1, "SENTINEL", 1, "TEMPVERDICT", 1), Covers: []string{"C11/Connect/retries-exhausted"}},
			{Harness: "vhC11Connect", Params: P("A", 4, "CANCEL", 0, "BODYKINDS", 1, "TPLMASK", 1), Covers: []string{"C11/Connect/retries-exhausted"}},
			{Harness: "vhC11Connect", Params: P("A", 3, "CANCEL", 0, "BODYKINDS", 5, "TPLMASK", 2), Covers: []string{"C11/Connect/body-reset-failed"}},
			{Harness: "vhC11Connect", Params: P("A", 3, "CANCEL", 0, "BODYKINDS", 5, "TPLMASK", 9), Covers: []string{"C11/Connect/retries-exhausted", "C11/Connect/body-reset-failed"}},
			// Connect called again on the same Connection: every call has the whole retry budget
			{Harness: "vhC10Reconnect", Params: P("A", 4, "CANCEL", 0, "BODYKINDS", 1, "TPLMASK", 1, "RMAX", 1), Covers: []string{"C11/Connect/retries-exhausted"}},
			// the context ends during the wait between two attempts, long before the wait is over
			{Harness: "vhC11CancelInWait", Params: P("A", 2, "CANCEL", 0, "BODYKINDS", 1, "TPLMASK", 1, "HOLD", 1), Covers: []string{"C11/Connect/cancelled"}, NoNative: true},
		},
		Thorough: []hrun{
			{Harness: "vhC11Connect", Params: P("A", 3, "CANCEL", 1, "BODYKINDS", 1, "TPLMASK", 7), Covers: []string{"C11/Connect/cancelled", "C11/Connect/retries-exhausted", "C11/Connect/validator-rejected"}, NoNative: true},
			{Harness: "vhC11Connect", Params: P("A", 4, "CANCEL", 0, "BODYKINDS", 5, "TPLMASK", 9), Covers: []string{"C11/Connect/retries-exhausted", "C11/Connect/body-reset-failed"}},
			{Harness: "vhC11Read", Params: P("N", 5, "SEG", 1), Covers: []string{"C11/Read/failing-reader"}},
			{Harness: "vhC11ConnRead", Params: P("N", 5, "SEG", 1), Covers: []string{"C11/ConnRead/failing-reader"}},
			{Harness: "vhC11ConnRead", Params: P("N", 8, "SEG", 0), Covers: []string{"C11/ConnRead/failing-reader"}},
		},
		Labels: []string{"C11/", "hang:", "C10/Connect/consumed-body", "C10/Connect/no-request-after-GetBody-failed", "C10/Connect/body-re-obtained", "C10/Connect/ErrNoGetBody", "C10/Connect/GetBody-error", "panic:"},
		Bounds: map[string]string{
			"quick":    "every stream <=4 bytes x every segmentation x {clean EOF, read error after the last byte, read error delivered together with the last bytes}; <=6 bytes in one chunk; the Connect loop against a scripted transport: scripts of <=2 attempts (each: transport failure / rejected response / 200 with one of 3 template streams ending cleanly or with a read error), MaxRetries in {-1,1,2}, cancellation before Do / at every byte offset of the body / while waiting for the retry timer; scripts of <=3 attempts without cancellation over 5 request-body kinds; scripts of <=3 attempts whose transport / read errors may be context.DeadlineExceeded / context.Canceled while the request context is live",
			"thorough": "<=5 bytes x all segmentations; <=8 bytes in one chunk",
		},
		Outside: []string{"real transports"},
		Oracle:  "the reader's own error whenever the reader failed (never ErrUnexpectedEOF instead), ErrUnexpectedEOF iff the stream ended cleanly in a non-empty unterminated line, io.EOF / nothing for a clean end; Connection.read never returns nil; events completed before the failure are delivered, the pending one is dropped",
	}

	checks["C10"] = &propCheck{
		ID: "C10",
		Quick: []hrun{
			{Harness: "vhC10Connect", Params: P("A", 3, "CANCEL", 0, "BODYKINDS", 1, "TPLMASK", 39), Covers: []string{"C10/Connect/header-sent"}},
			{Harness: "vhC10Connect", Params: P("A", 3, "CANCEL", 0, "BODYKINDS", 5, "TPLMASK", 1), Covers: []string{"C10/Connect/getbody-failed"}},
			{Harness: "vhC10Connect", Params: P("A", 3, "CANCEL", 0, "BODYKINDS", 5, "TPLMASK", 2, "MRCHOICES", 3), Covers: []string{"C10/Connect/header-sent"}},
			{Harness: "vhC10Connect", Params: P("A", 2, "CANCEL", 0, "BODYKINDS", 1, "TPLMASK", 64), Covers: []string{"C10/Connect/header-sent"}},
			// Connect called again on the same Connection: its first attempt is a reconnection too
			{Harness: "vhC10Reconnect", Params: P("A", 2, "CANCEL", 0, "BODYKINDS", 5, "TPLMASK", 3), Covers: []string{"C10/Connect/header-sent", "C10/Connect/getbody-failed"}},
			// an event dispatched by the clean end of the body (terminated last line, no blank line): its id counts
			{Harness: "vhC10Connect", Params: P("A", 2, "CANCEL", 0, "BODYKINDS", 1, "TPLMASK", 256), Covers: []string{"C10/Connect/header-sent"}},
			// the stored ID must survive the scanner compacting its buffer (16-byte buffer on short streams)
			{Harness: "vhC01SmallBufConn", Params: P("L", 16)},
			// two Connections made from one *http.Request do not share what they send
			{Harness: "vhC10TwoConns", Covers: []string{"C10/TwoConns/ran"}},
			// transport failures that are dial errors (*net.OpError), followed by a connection and its loss
			{Harness: "vhC10Connect", Params: P("A", 3, "CANCEL", 0, "BODYKINDS", 5, "TPLMASK", 1, "DIALERR", 1), Covers: []string{"C10/Connect/getbody-failed"}},
		},
		Thorough: []hrun{
			{Harness: "vhC10Connect", Params: P("A", 3, "CANCEL", 1, "BODYKINDS", 1, "TPLMASK", 7), Covers: []string{"C10/Connect/header-sent"}, NoNative: true},
			{Harness: "vhC10Connect", Params: P("A", 4, "CANCEL", 0, "BODYKINDS", 5, "TPLMASK", 3), Covers: []string{"C10/Connect/getbody-failed"}},
			{Harness: "vhC10Reconnect", Params: P("A", 3, "CANCEL", 0, "BODYKINDS", 5, "TPLMASK", 39), Covers: []string{"C10/Connect/header-sent", "C10/Connect/getbody-failed"}},
		},
		Labels: []string{"C10/", "C01/SmallBufConn", "C11/Connect/never-returns-nil", "panic:"},
		Bounds: map[string]string{
			"quick":    "the real Connect loop against a scripted transport: scripts of <=3 attempts, each a transport failure, a rejected response, or a 200 response streaming one of 4 templates (data only; id:<symbolic byte>; id:<symbolic byte> cut before its blank line; id:7 then an empty id) ending cleanly or with a read error; MaxRetries in {-1,1,2}; request-body kinds {none, NoBody, with GetBody, without GetBody, GetBody failing at its 1st or 2nd call}",
			"thorough": "quick plus: cancellation at every point for scripts of <=3 attempts; scripts of <=4 attempts over the 5 request-body kinds with the data-only and id templates; Connect called 3 times on one Connection",
		},
		Outside: []string{"real transports and the real http.Client.Do (stub: Transport.RoundTrip, failures wrapped in *url.Error)", "requests that already carry a Last-Event-ID header", "timers fire as soon as they are armed"},
		Oracle:  "header at attempt a = LastEventID of the last event the WHATWG oracle dispatches over all earlier streams (an id in an event cut before its blank line counts only if the body ended cleanly; NUL ids ignored), absent when empty; a body is re-obtained through GetBody for every retry, ErrNoGetBody / GetBody's error ends Connect without a further request",
	}
	checks["C12"] = &propCheck{
		ID: "C12",
		Quick: []hrun{
			{Harness: "vhC12Merge", Covers: []string{"C12/Merge/jitter-minus-one"}},
			{Harness: "vhC12Logic", Params: P("K", 3), Covers: []string{"C12/Logic/limit-hit", "C12/Logic/elapsed-refusal", "C12/Logic/retry-granted"}, NoNative: true},
			{Harness: "vhC12Connect", Params: P("A", 2, "CANCEL", 0, "BODYKINDS", 1, "TPLMASK", 17, "RDIGITS", 2), Covers: []string{"C12/Connect/server-retry-used"}},
			{Harness: "vhC12Connect", Params: P("A", 3, "CANCEL", 0, "BODYKINDS", 1, "TPLMASK", 9), Covers: []string{"C11/Connect/retries-exhausted"}},
			// a retry field in a block the connection is cut in
			{Harness: "vhC12Connect", Params: P("A", 2, "CANCEL", 0, "BODYKINDS", 1, "TPLMASK", 128, "RDIGITS", 1), Covers: []string{"C12/Connect/server-retry-used"}},
			// jitter 0.5, multiplier 2: every history of 4 retry/reset events with the random draws at
			// their extremes and midpoint (the wait is monotone in the draw)
			{Harness: "vhC12Logic", Params: P("K", 4, "SIMPLE", 1, "RANDEXTREMES", 1), Covers: []string{"C12/Logic/retry-granted"}, NoNative: true},
		},
		Thorough: []hrun{
			{Harness: "vhC12Merge", Covers: []string{"C12/Merge/jitter-minus-one"}},
			{Harness: "vhC12Logic", Params: P("K", 4), Covers: []string{"C12/Logic/limit-hit", "C12/Logic/elapsed-refusal", "C12/Logic/retry-granted"}, NoNative: true},
			{Harness: "vhC12Logic", Params: P("K", 5, "SIMPLE", 1, "RANDEXTREMES", 1), Covers: []string{"C12/Logic/retry-granted"}, NoNative: true},
			{Harness: "vhC12Connect", Params: P("A", 4, "CANCEL", 0, "BODYKINDS", 1, "TPLMASK", 9), Covers: []string{"C11/Connect/retries-exhausted"}},
			{Harness: "vhC12Connect", Params: P("A", 2, "CANCEL", 0, "BODYKINDS", 1, "TPLMASK", 129, "RDIGITS", 2), Covers: []string{"C12/Connect/server-retry-used"}},
		},
		Labels: []string{"C12/", "panic:"},
		Bounds: map[string]string{
			"quick":    "mergeDefaults on a fully symbolic Backoff (64-bit integers, IEEE doubles, NaN excluded); the backoff controller through every sequence of 3 events {retry requested, successful connection with server retry in {0,-5ns,250ms,4s}} with InitialInterval in {1ns,1us,3s}, Multiplier in {1,1.5,2}, MaxInterval in {0,2.5us,7s}, MaxRetries in {-1,0,1,3}, Jitter -1, symbolic MaxElapsedTime in [-1,2^40] and a symbolic non-decreasing clock; the Connect loop with scripts of <=2 attempts whose streams carry retry:<2 symbolic bytes>, and <=3 attempts for the retry-count limit",
			"thorough": "quick plus: sequences of 4 events without jitter; jitter histories of 5 events with the draws at their extremes and midpoint (a fully symbolic draw - IEEE floating point in z3 - did not complete reliably and is not registered); Connect scripts of 4 attempts; a retry field in a cut block next to the data-only template",
		},
		Outside: []string{"real-valued Jitter/Multiplier other than the listed ones in the schedule clauses (mergeDefaults is decided for all values)", "waits after the first one of a series started by a server retry value inside the Connect harness (floating-point growth: decided in the controller harness for the listed configurations)", "float to Duration overflow", "wall-clock timing: timers fire at once, time.Now is an arbitrary non-decreasing value"},
		Oracle:  "recurrence b_1 = InitialInterval or the server retry value, b_(k+1) = min(b_k*Multiplier, MaxInterval); wait within +-Jitter of b_k (exactly b_k for -1), rounded outward to whole nanoseconds; at most MaxRetries grants in a row; refusal only when elapsed+wait would exceed MaxElapsedTime; OnRetry once per retry with the duration the timer is armed with",
	}

	// ---- Joe: every interleaving of a bounded configuration ----
	joe := func(h string, kv ...interface{}) hrun {
		return hrun{Harness: h, Params: P(kv...), Threads: true, Stress: 20000, NoNative: true, MaxSteps: 20000000}
	}
	checks["C06"] = &propCheck{
		ID: "C06",
		Quick: []hrun{
			joe("vhC06Joe", "NSUB", 1, "NMSG", 1, "NSHUT", 0, "CANCEL", 1, "TOPICS", 0),
			joe("vhC06Joe", "NSUB", 1, "NMSG", 1, "NSHUT", 1, "CANCEL", 1, "TOPICS", 0),
			joe("vhC06Joe", "NSUB", 2, "NMSG", 1, "NSHUT", 1, "CANCEL", 0, "TOPICS", 0),
			joe("vhC06Joe", "NSUB", 1, "NMSG", 1, "NSHUT", 0, "CANCEL", 1, "TOPICS", 0, "REPLAYER", 2),
			joe("vhC06Joe", "NSUB", 1, "NMSG", 3, "NSHUT", 0, "CANCEL", 0, "TOPICS", 0),
			joe("vhC06Joe", "NSUB", 2, "NMSG", 2, "NSHUT", 0, "CANCEL", 0, "TOPICS", 0),
			joe("vhC06Joe", "NSUB", 2, "NMSG", 1, "NSHUT", 0, "CANCEL", 0, "TOPICS", 1),
			joe("vhC06Joe", "NSUB", 2, "NMSG", 1, "NSHUT", 0, "CANCEL", 1, "CANCELN", 1, "TOPICS", 0),
			// "Subscribe returns the subscriber's own ... replay error": what the real replayers return
			{Harness: "vhC08Replay", Params: P("CAP", 2, "AUTO", 0, "TOPICS", 1)},
			// capacity 3: the replayed range can be split by the ring's wrap, with the failing Send in its first part
			{Harness: "vhC08Replay", Params: P("CAP", 3, "AUTO", 0, "TOPICS", 1)},
			{Harness: "vhC09Replay", Params: P("AUTO", 1, "SIZES", 2, "TOPICS", 1, "MAXCOUNT", 2)},
			// a Send error that wraps context.Canceled while the subscription's own context is live
			joe("vhC06Joe", "NSUB", 1, "NMSG", 2, "NSHUT", 0, "CANCEL", 0, "TOPICS", 0, "ERRKIND", 1),
			// two overlapping Shutdown calls
			joe("vhC06Joe", "NSUB", 1, "NMSG", 0, "NSHUT", 2, "CANCEL", 0, "TOPICS", 0),
			// a subscription whose context may already be done when Subscribe is called
			joe("vhC06Joe", "NSUB", 1, "NMSG", 0, "NSHUT", 0, "CANCEL", 1, "TOPICS", 0),
		},
		Thorough: []hrun{
			joe("vhC06Joe", "NSUB", 2, "NMSG", 1, "NSHUT", 0, "CANCEL", 1, "TOPICS", 0),
			joe("vhC06Joe", "NSUB", 2, "NMSG", 2, "NSHUT", 1, "CANCEL", 1, "CANCELN", 1, "TOPICS", 0),
			joe("vhC06Joe", "NSUB", 1, "NMSG", 2, "NSHUT", 1, "CANCEL", 1, "TOPICS", 0),
			joe("vhC06Joe", "NSUB", 2, "NMSG", 2, "NSHUT", 0, "CANCEL", 0, "TOPICS", 0),
		},
		Labels: []string{"C06/", "C08/Replay/send-error", "C08/Replay/sends-before-failure", "C08/Replay/nothing-after-failure", "C08/Replay/flush-error", "C09/Replay/send-error", "C09/Replay/sends-before-failure", "C09/Replay/nothing-after-failure", "panic:"},
		Bounds: map[string]string{
			"quick":    "every interleaving of visible operations (channel send/receive/select/close; invisible steps commute) of: {1 subscriber, 1 message, cancellation of its context}, the same plus a Shutdown call, {2 subscribers, 1 message, Shutdown}, {1 subscriber, 1 message, cancellation, a replayer whose Put/Replay may fail or panic}, {1 subscriber, 3 messages}, {2 subscribers, 2 messages}; every Send and Flush may fail (symbolic outcome per call)",
			"thorough": "{2 subscribers, 1 message, both cancellable}, {1 subscriber, 2 messages, cancellation, Shutdown}, {2 subscribers, 2 messages}",
		},
		Outside: []string{"more goroutines / messages than the configuration", "Go's memory model below channel operations (sequential consistency of channel and Once operations is assumed; Joe shares no plain variables between goroutines)", "scheduler fairness and timing; GOMAXPROCS as such (every interleaving of visible operations subsumes it for race-free code)"},
		Oracle:  "monitors in harness/sse_joe.go: no unrecovered panic in any goroutine; no Send/Flush on a subscriber after its Subscribe returned; Subscribe returns its own first Send/Flush/replay error, nil only after cancellation or shutdown was requested, ErrProviderClosed only after shutdown",
	}
	for i := range checks["C06"].Quick {
		_ = i
	}
	checks["C07"] = &propCheck{
		ID: "C07",
		Quick: []hrun{
			joe("vhC07Joe", "NSUB", 1, "NMSG", 1, "NSHUT", 1, "CANCEL", 1, "TOPICS", 0),
			joe("vhC07Joe", "NSUB", 1, "NMSG", 1, "NSHUT", 2, "CANCEL", 0, "TOPICS", 0, "SHUTCTX", 1),
			joe("vhC07Joe", "NSUB", 2, "NMSG", 1, "NSHUT", 1, "CANCEL", 0, "TOPICS", 0, "FAULTS", 1),
			joe("vhC07Joe", "NSUB", 2, "NMSG", 0, "NSHUT", 0, "CANCEL", 1, "TOPICS", 0),
			joe("vhC07Joe", "NSUB", 1, "NMSG", 3, "NSHUT", 1, "CANCEL", 0, "TOPICS", 0, "FAULTS", 1),
			joe("vhC07Joe", "NSUB", 2, "NMSG", 1, "NSHUT", 1, "CANCEL", 1, "CANCELN", 1, "TOPICS", 0, "EMPTYTOPICS", 1),
			// the subscriber is cancelled while Joe is inside its failing Send
			joe("vhC07Joe", "NSUB", 1, "NMSG", 1, "NSHUT", 1, "CANCEL", 1, "TOPICS", 0, "FAULTS", 1),
			// a pipelined consumer: its Send returns once the publisher got its pending Publish back,
			// which Shutdown promises
			joe("vhC07Joe", "NSUB", 1, "NMSG", 2, "NSHUT", 1, "CANCEL", 0, "TOPICS", 0, "GATE", 1),
			// Shutdown returning nil means every subscriber has been released
			joe("vhC07Joe", "NSUB", 2, "NMSG", 0, "NSHUT", 1, "CANCEL", 0, "TOPICS", 0),
			// the context given to Shutdown ends while Joe is busy in a Send that makes progress
			// only once Shutdown has returned: Shutdown returns its context's error
			joe("vhC07Joe", "NSUB", 1, "NMSG", 1, "NSHUT", 1, "CANCEL", 0, "TOPICS", 0, "GATE", 2, "SHUTCTX", 2),
		},
		Thorough: []hrun{
			joe("vhC07Joe", "NSUB", 2, "NMSG", 1, "NSHUT", 2, "CANCEL", 0, "TOPICS", 0),
			joe("vhC07Joe", "NSUB", 1, "NMSG", 2, "NSHUT", 1, "CANCEL", 1, "TOPICS", 0, "FAULTS", 1),
			joe("vhC07Joe", "NSUB", 2, "NMSG", 1, "NSHUT", 0, "CANCEL", 1, "TOPICS", 0),
		},
		Labels: []string{"C07/", "panic:"},
		Bounds: map[string]string{
			"quick":    "every interleaving of visible operations of: {1 subscriber, 1 message, cancel, 1 Shutdown}, {1 subscriber, 1 message, 2 concurrent Shutdowns}, {2 subscribers, 1 message, 1 Shutdown, failing Send/Flush}, {2 cancellable subscribers, no Shutdown}, {1 subscriber, 3 messages, 1 Shutdown, failing Send/Flush}; every caller may be the one that runs Joe's lazy initialisation",
			"thorough": "{2 subscribers, 1 message, 2 Shutdowns}, {1 subscriber, 2 messages, cancel, Shutdown, failures}, {2 cancellable subscribers, 1 message}",
		},
		Outside: []string{"subscribers whose Send never returns (excluded by the property; a Send that returns once a pending Publish or the Shutdown call has returned is covered by the GATE configurations)", "liveness under an unfair scheduler with unbounded publishers"},
		Oracle:  "at quiescence (no transition enabled): with a Shutdown every goroutine has finished - every Subscribe and Publish returned (nil, own error, replayer error or ErrProviderClosed), exactly one Shutdown returned nil and the others ErrProviderClosed, Joe's goroutine exited (closed channel closed); without Shutdown at most Joe's own idle goroutine remains once every subscriber was cancelled; no crash",
	}
	checks["C03"] = &propCheck{
		ID: "C03",
		Quick: []hrun{
			joe("vhC03Joe", "NSUB", 2, "NMSG", 2, "NSHUT", 0, "CANCEL", 0, "TOPICS", 1),
			joe("vhC03Joe", "NSUB", 1, "NMSG", 2, "NSHUT", 0, "CANCEL", 1, "TOPICS", 0, "FAULTS", 1),
			joe("vhC03Joe", "NSUB", 2, "NMSG", 1, "NSHUT", 1, "CANCEL", 0, "TOPICS", 0),
			joe("vhC03Joe", "NSUB", 2, "NMSG", 1, "NSHUT", 0, "CANCEL", 0, "TOPICS", 1, "FAULTS", 1),
			joe("vhC03Joe", "NSUB", 2, "NMSG", 1, "NSHUT", 0, "CANCEL", 1, "CANCELN", 1, "TOPICS", 0),
			joe("vhC03Joe", "NSUB", 1, "NMSG", 1, "NSHUT", 0, "CANCEL", 0, "TOPICS", 1, "NTOPICS", 2),
			joe("vhC03Joe", "NSUB", 2, "NMSG", 2, "NSHUT", 0, "CANCEL", 0, "TOPICS", 0, "FAULTS", 1),
			// one *Message object published twice (a reused keep-alive message): two publications
			joe("vhC03Joe", "NSUB", 2, "NMSG", 2, "NSHUT", 0, "CANCEL", 0, "TOPICS", 0, "SAMEMSG", 1),
			joe("vhC03Joe", "NSUB", 1, "NMSG", 3, "NSHUT", 0, "CANCEL", 0, "TOPICS", 1, "SAMEMSG", 1),
			// a message the replayer's Put rejects (or panics on) is accepted by Joe all the same
			joe("vhC17Joe", "NSUB", 1, "NMSG", 2, "NSHUT", 0, "CANCEL", 0, "TOPICS", 0, "REPLAYER", 2),
		},
		Thorough: []hrun{
			joe("vhC03Joe", "NSUB", 2, "NMSG", 2, "NSHUT", 0, "CANCEL", 0, "TOPICS", 0, "FAULTS", 1),
			joe("vhC03Joe", "NSUB", 2, "NMSG", 2, "NSHUT", 0, "CANCEL", 0, "TOPICS", 1, "NTOPICS", 2),
			joe("vhC03Joe", "NSUB", 2, "NMSG", 1, "NSHUT", 0, "CANCEL", 1, "TOPICS", 0),
			joe("vhC03Joe", "NSUB", 3, "NMSG", 1, "NSHUT", 0, "CANCEL", 0, "TOPICS", 1),
		},
		Labels: []string{"C03/", "C17/", "C06/", "panic:"},
		Bounds: map[string]string{
			"quick":    "every interleaving of visible operations of: {2 subscribers, 1 publisher x 2 messages, symbolic one-byte topics on both sides}, {1 cancellable subscriber, 2 messages, failing Send/Flush}, {2 subscribers, 1 message, Shutdown}, {2 subscribers with symbolic topics, 1 message, failing Send/Flush}; a recording contract replayer is the linearisation witness (order of Put and of registration)",
			"thorough": "{2 subscribers, 2 messages, up to 2 topics each}, {2 cancellable subscribers, 1 message}, {3 subscribers, 1 message}",
		},
		Outside: []string{"more goroutines / messages than the configuration; several publishers (one publisher thread: program order)", "Joe with the real replayers (their contract is decided in C08/C09)"},
		Oracle:  "per (subscriber, message): at most one Send; a Send only if the topics intersect (independent intersection) and in Joe's Put order; exactly one Send if the subscriber was registered before the message was accepted, matches, had not failed and had not been asked to leave; every successful Send followed by that subscriber's Flush before Joe does anything else; publisher program order kept",
	}
	for _, runs := range [][]hrun{checks["C03"].Quick, checks["C03"].Thorough} {
		for i := range runs {
			if runs[i].Harness == "vhC03Joe" {
				runs[i].Covers = []string{"C03/delivery-obligation"}
			} else {
				runs[i].Covers = []string{"C17/delivery-obligation"}
			}
		}
	}
	checks["C17"] = &propCheck{
		ID: "C17",
		Quick: []hrun{
			joe("vhC17Joe", "NSUB", 2, "NMSG", 1, "NSHUT", 0, "CANCEL", 0, "TOPICS", 0, "REPLAYER", 1),
			joe("vhC17Joe", "NSUB", 1, "NMSG", 2, "NSHUT", 0, "CANCEL", 0, "TOPICS", 0, "REPLAYER", 2),
			joe("vhC17Joe", "NSUB", 2, "NMSG", 2, "NSHUT", 0, "CANCEL", 0, "TOPICS", 1, "REPLAYER", 1),
			joe("vhC17Joe", "NSUB", 2, "NMSG", 1, "NSHUT", 0, "CANCEL", 1, "CANCELN", 1, "TOPICS", 0, "REPLAYER", 1),
			// Send/Flush errors that wrap context.Canceled (the subscription's own context is live)
			joe("vhC17Joe", "NSUB", 2, "NMSG", 2, "NSHUT", 0, "CANCEL", 0, "TOPICS", 0, "REPLAYER", 1, "ERRKIND", 1),
			// "gets the error from Subscribe": a Send failing during the replay of the real replayers is what Replay returns
			{Harness: "vhC08Replay", Params: P("CAP", 2, "AUTO", 0, "TOPICS", 1)},
			{Harness: "vhC09Replay", Params: P("AUTO", 0, "SIZES", 2, "TOPICS", 1, "MAXCOUNT", 2)},
		},
		Thorough: []hrun{
			joe("vhC17Joe", "NSUB", 3, "NMSG", 1, "NSHUT", 0, "CANCEL", 0, "TOPICS", 1, "REPLAYER", 1),
			joe("vhC17Joe", "NSUB", 2, "NMSG", 2, "NSHUT", 0, "CANCEL", 0, "TOPICS", 0, "REPLAYER", 1),
			joe("vhC17Joe", "NSUB", 2, "NMSG", 1, "NSHUT", 0, "CANCEL", 0, "TOPICS", 0, "REPLAYER", 2),
		},
		Labels: []string{"C17/", "C06/", "C08/Replay/send-error", "C08/Replay/sends-before-failure", "C08/Replay/nothing-after-failure", "C08/Replay/flush-error", "C09/Replay/send-error", "C09/Replay/sends-before-failure", "C09/Replay/nothing-after-failure", "panic:"},
		Bounds: map[string]string{
			"quick":    "every interleaving of: {2 subscribers whose every Send/Flush may fail, 1 message}, {1 subscriber, 2 messages, a replayer whose every Put/Replay returns normally, returns an error or panics}, {2 subscribers and 2 messages with symbolic one-byte topics (subscribers on different topics), failing Send/Flush}",
			"thorough": "{2 subscribers, 2 messages, failing clients}, {2 subscribers, 1 message, failing/panicking replayer}",
		},
		Outside: []string{"as C03"},
		Oracle:  "the C03 delivery obligations hold for every subscriber that has not itself failed (in particular for the message during whose fan-out another subscriber failed, in either iteration order); exactly the failing subscriber's Subscribe returns its error; a Put error is what that Publish returns while the message is still delivered; after a replayer panic the replayer is never called again, the panicking Publish returns nil and delivery continues",
	}
	checks["C04"] = &propCheck{
		ID: "C04",
		Quick: []hrun{
			joe("vhC04Joe", "NSUB", 1, "NMSG", 2, "TOPICS", 0),
			joe("vhC04Joe", "NSUB", 1, "NMSG", 2, "TOPICS", 1),
			// another subscriber's client fails during the fan-out: the resumed one still gets everything
			joe("vhC04Joe", "NSUB", 2, "NMSG", 1, "TOPICS", 0, "FAULTS", 1),
			// the replayer contract C04 relies on, for the real replayers (same harnesses as C08/C09)
			{Harness: "vhC08Put", Params: P("CAP", 2, "AUTO", 1, "TOPICS", 1)},
			{Harness: "vhC08Replay", Params: P("CAP", 2, "AUTO", 0, "TOPICS", 1)},
			{Harness: "vhC08Replay", Params: P("CAP", 3, "AUTO", 1, "TOPICS", 1)},
			{Harness: "vhC09Replay", Params: P("AUTO", 0, "SIZES", 2, "TOPICS", 1, "MAXCOUNT", 4)},
			{Harness: "vhC09Replay", Params: P("AUTO", 1, "SIZES", 2, "TOPICS", 1, "MAXCOUNT", 3)},
			{Harness: "vhC09Put", Params: P("AUTO", 0, "SIZES", 2, "TOPICS", 1)},
			{Harness: "vhC09GC", Params: P("AUTO", 1, "SIZES", 3, "TOPICS", 1)},
		},
		Thorough: []hrun{
			joe("vhC04Joe", "NSUB", 1, "NMSG", 3, "TOPICS", 0),
			joe("vhC04Joe", "NSUB", 2, "NMSG", 2, "TOPICS", 0),
			{Harness: "vhC08Put", Params: P("CAP", 3, "AUTO", 1, "TOPICS", 1)},
			{Harness: "vhC08Replay", Params: P("CAP", 3, "AUTO", 0, "TOPICS", 1)},
			{Harness: "vhC08Replay", Params: P("CAP", 4, "AUTO", 1, "TOPICS", 1)},
			{Harness: "vhC09Put", Params: P("AUTO", 1, "SIZES", 2, "TOPICS", 1)},
			{Harness: "vhC09Replay", Params: P("AUTO", 1, "SIZES", 3, "TOPICS", 1, "MAXCOUNT", 3)},
		},
		Labels: []string{"C04/", "C08/", "C09/", "panic:"},
		Bounds: map[string]string{
			"quick":    "every interleaving of 1 resuming Subscribe (presenting no ID, the ID of either message, or a never-issued ID) with 1 publisher x 2 messages, default or symbolic one-byte topics; the replayer is a contract (Put stamps and returns the ID-carrying copy; Replay delivers exactly the later matching stamped messages); that the real FiniteReplayer/ValidReplayer implement it - start index after the presented ID, newest/never-issued/unset ID replay nothing, consecutive automatic IDs - is decided by the C08/C09 inductive-step harnesses, run here too for capacities 2-3 / buffer length 4",
			"thorough": "3 messages; 2 resuming subscribers with 2 messages",
		},
		Outside: []string{"Joe composed with the real FiniteReplayer/ValidReplayer in one run (assume-guarantee through the replayer contract)", "buffer capacity effects (decided in C08/C09)"},
		Oracle:  "the Send sequence of the resuming subscriber equals: the matching messages put after the presented one (when that one was put before the subscription was processed) or after its registration otherwise, each once, in Put order; every delivered message is the ID-carrying copy returned by Put",
	}

	checks["C05"] = &propCheck{
		ID: "C05",
		Quick: []hrun{
			{Harness: "vhC05", Params: P("MSGS", 2, "ATTEMPTS", 2, "AUTO", 1, "N", 1), Covers: []string{"C05/all-received", "C05/cut-mid-stream"}},
			{Harness: "vhC05", Params: P("MSGS", 2, "ATTEMPTS", 2, "AUTO", 0, "N", 1), Covers: []string{"C05/all-received", "C05/cut-mid-stream"}},
			{Harness: "vhC05", Params: P("MSGS", 2, "ATTEMPTS", 2, "AUTO", 0, "N", 1, "VALID", 1), Covers: []string{"C05/all-received", "C05/cut-mid-stream"}},
			{Harness: "vhC05", Params: P("MSGS", 2, "ATTEMPTS", 2, "AUTO", 1, "N", 0, "SMALLBUF", 24), Covers: []string{"C05/all-received", "C05/cut-mid-stream"}},
			// each response body handed over in two reads split at every offset (besides the cut)
			{Harness: "vhC05", Params: P("MSGS", 2, "ATTEMPTS", 2, "AUTO", 1, "N", 0, "SPLIT", 1, "NOTYPE", 1), Covers: []string{"C05/all-received", "C05/cut-mid-stream"}},
			// three attempts: a reconnection may be cut before it delivers anything
			{Harness: "vhC05", Params: P("MSGS", 2, "ATTEMPTS", 3, "AUTO", 1, "N", 0, "NOTYPE", 1), Covers: []string{"C05/all-received", "C05/cut-mid-stream"}},
			// data that ends in an empty line
			{Harness: "vhC05", Params: P("MSGS", 2, "ATTEMPTS", 2, "AUTO", 1, "N", 1, "NOTYPE", 1, "TRAILNL", 1), Covers: []string{"C05/all-received", "C05/cut-mid-stream"}},
			// a Server whose OnSession picks the topics itself
			{Harness: "vhC05", Params: P("MSGS", 2, "ATTEMPTS", 2, "AUTO", 1, "N", 0, "NOTYPE", 1, "ONSESSION", 1), Covers: []string{"C05/all-received", "C05/cut-mid-stream"}},
			// "a replayer large enough": the ValidReplayer's ring must keep Put order through grow/GC (one inductive step)
			{Harness: "vhC09Put", Params: P("AUTO", 0, "SIZES", 2, "TOPICS", 1)},
			// "the server process survives every such cut": Joe under cancellation while publishing
			joe("vhC06Joe", "NSUB", 1, "NMSG", 2, "NSHUT", 0, "CANCEL", 1, "TOPICS", 0),
			// a cut session that the server has not noticed yet (its next write fails) next to a fresh one
			joe("vhC17Joe", "NSUB", 2, "NMSG", 1, "NSHUT", 0, "CANCEL", 0, "TOPICS", 0, "REPLAYER", 1),
		},
		Thorough: []hrun{
			{Harness: "vhC05", Params: P("MSGS", 2, "ATTEMPTS", 2, "AUTO", 0, "N", 2), Covers: []string{"C05/all-received"}},
			{Harness: "vhC05", Params: P("MSGS", 3, "ATTEMPTS", 2, "AUTO", 1, "N", 0, "NOTYPE", 1), Covers: []string{"C05/all-received"}},
			{Harness: "vhC05", Params: P("MSGS", 2, "ATTEMPTS", 3, "AUTO", 1, "N", 0), Covers: []string{"C05/all-received"}},
			{Harness: "vhC05", Params: P("MSGS", 2, "ATTEMPTS", 2, "AUTO", 1, "N", 1, "VALID", 1), Covers: []string{"C05/all-received"}},
			{Harness: "vhC05", Params: P("MSGS", 2, "ATTEMPTS", 2, "AUTO", 1, "N", 0, "SPLIT", 1), Covers: []string{"C05/all-received"}},
		},
		Labels: []string{"C05/", "C06/", "C17/", "C09/", "panic:"},
		Bounds: map[string]string{
			"quick":    "2 messages (symbolic data <=1 byte incl. line breaks, optional symbolic type <=1 byte), every placement of their publication on the timeline {client away, while attempt 1 is connected, away, while attempt 2 is connected}, 2 connection attempts, the first cut at EVERY byte offset of the response body abruptly (read error) or, at message boundaries, by the handler returning; FiniteReplayer with automatic and manual IDs and ValidReplayer with manual IDs, capacity >= number of messages",
			"thorough": "quick plus: data <=2 bytes with manual IDs; 3 messages (fixed data); 3 attempts (2 cuts); ValidReplayer with automatic IDs; split reads with optional types",
		},
		Outside: []string{"net/http client and server, TCP, chunked framing (trusted to deliver a prefix of the handler's bytes followed by an error or a clean end)", "Joe's goroutines: replaced by 'replay then register is atomic, live delivery is exactly once in Put order', which C03/C04 decide", "cuts inside the response headers (the body is cut at every offset from 0)", "'the server process survives' is C06's no-crash clause"},
		Oracle:  "the callback log from the first received event on equals the published list from that event on: each once, in order, with the published ID, type and LF-joined data",
	}

	// the thorough tier always contains the quick tier
	for _, pc := range checks {
		seen := map[string]bool{}
		var all []hrun
		for _, r := range append(append([]hrun{}, pc.Quick...), pc.Thorough...) {
			k := r.Harness + fmtParams(r.Params) + r.Solver
			if !seen[k] {
				seen[k] = true
				all = append(all, r)
			}
		}
		pc.Thorough = all
	}
}

func fmtParams(m map[string]int) string {
	keys := make([]string, 0, len(m))
	for k := range m {
		keys = append(keys, k)
	}
	sort.Strings(keys)
	s := ""
	for _, k := range keys {
		s += k + "=" + strconv.Itoa(m[k]) + ","
	}
	return s
}
