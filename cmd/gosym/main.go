// gosym: symbolic execution of go-sse's real SSA, one harness at a time
// (`gosym run`), or a whole property check (`gosym check`).
package main

import (
	"crypto/sha1"
	"encoding/json"
	"flag"
	"fmt"
	"os"
	"sort"
	"strconv"
	"strings"
	"time"

	"verif/internal/sym"
)

func envOr(k, d string) string {
	if v := os.Getenv(k); v != "" {
		return v
	}
	return d
}

var droppedHarnessFiles []string

var (
	repoDir    = envOr("VERIF_REPO", "/repo")
	verifDir   = envOr("VERIF_DIR", "/verif")
	harnessDir = ""
)

func loadProgram(params map[string]int) (*sym.Program, error) {
	if harnessDir == "" {
		harnessDir = verifDir + "/harness"
	}
	ov, err := sym.HarnessOverlay(repoDir, harnessDir)
	if err != nil {
		return nil, err
	}
	// the intrinsics and the oracle must load; any other harness file that does not type-check
	// against the code under test any more is left out (its harnesses become unavailable)
	p, dropped, err := sym.LoadTolerant(repoDir, []string{".", "./internal/parser"}, ov, func(virt string) bool {
		return strings.HasSuffix(virt, "zz_verif_intrinsics.go") || strings.HasSuffix(virt, "zz_verif_oracle.go")
	})
	if err != nil {
		return nil, err
	}
	droppedHarnessFiles = dropped
	for _, d := range dropped {
		fmt.Fprintln(os.Stderr, "harness file left out (does not type-check against this tree):", d)
	}
	p.Params = params
	if err := p.RunInits(); err != nil {
		return nil, err
	}
	return p, nil
}

func parseParams(s string) map[string]int {
	m := map[string]int{}
	for _, kv := range strings.Split(s, ",") {
		if kv == "" {
			continue
		}
		parts := strings.SplitN(kv, "=", 2)
		if len(parts) != 2 {
			continue
		}
		n, _ := strconv.Atoi(parts[1])
		m[parts[0]] = n
	}
	return m
}

func cmdRun(args []string) int {
	fs := flag.NewFlagSet("run", flag.ExitOnError)
	harness := fs.String("harness", "", "harness function name")
	workers := fs.Int("workers", 8, "parallel workers")
	solver := fs.String("solver", "z3", "z3 | z3-new | cvc5 | cvc5-int")
	params := fs.String("params", "", "k=v,k=v bounds passed to verifParam")
	verbose := fs.Bool("v", false, "verbose")
	timeout := fs.Int("timeout", 60000, "per-query timeout ms")
	maxSteps := fs.Int("maxsteps", 3000000, "step budget per path")
	noPOR := fs.Bool("nopor", false, "disable sleep-set reduction")
	fs.Parse(args)
	t0 := time.Now()
	p, err := loadProgram(parseParams(*params))
	if err != nil {
		fmt.Fprintln(os.Stderr, "load:", err)
		return 3
	}
	fmt.Fprintf(os.Stderr, "loaded in %.1fs; inits run: %v\n", time.Since(t0).Seconds(), p.InitRun)
	e, err := sym.NewExplorer(p, *harness)
	if err != nil {
		fmt.Fprintln(os.Stderr, err)
		return 3
	}
	e.Workers = *workers
	e.SolverK = *solver
	e.Timeout = *timeout
	e.Opt.Verbose = *verbose
	e.Opt.MaxSteps = *maxSteps
	e.Opt.NoPOR = *noPOR
	e.Opt.Threads = true
	t1 := time.Now()
	e.Run()
	st := e.Stats
	fmt.Printf("harness %s: paths=%d pruned=%d unwind=%d asserts=%d (smt %d, concrete %d) queries=%d solver=%.2fs wall=%.2fs fast=%d modelsaved=%d unknown=%d maxdec=%d steps=%d\n",
		*harness, st.Paths, st.Pruned, st.Unwind, st.AssertsReached, st.AssertsDischargedBySMT, st.AssertsConcrete, st.Queries, st.SolverTime.Seconds(), time.Since(t1).Seconds(), st.FastResolved, st.ModelSaved, st.Unknowns, st.MaxPathDecisions, st.Steps)
	var labels []string
	for l, n := range st.AssertLabels {
		labels = append(labels, fmt.Sprintf("%s:%d", l, n))
	}
	sort.Strings(labels)
	fmt.Println("assert labels:", labels)
	fmt.Println("covers:", st.Covers)
	if len(st.Outcomes) > 0 {
		var keys []string
		for k := range st.Outcomes {
			keys = append(keys, k)
		}
		sort.Strings(keys)
		h := sha1.Sum([]byte(strings.Join(keys, "\n")))
		fmt.Printf("distinct outcomes: %d sha1=%x sleep-blocked=%d\n", len(keys), h[:6], st.SleepBlocked)
	}
	for _, s := range st.Samples {
		b, _ := json.Marshal(s)
		fmt.Println("sample:", string(b))
	}
	for _, m := range e.Internal {
		fmt.Println("INTERNAL:", m)
	}
	for _, v := range e.Violations {
		b, _ := json.Marshal(v)
		fmt.Println("violation:", string(b))
	}
	if len(e.Internal) > 0 {
		return 3
	}
	if len(e.Violations) > 0 {
		return 1
	}
	return 0
}

func main() {
	if len(os.Args) < 2 {
		fmt.Fprintln(os.Stderr, "usage: gosym run|check ...")
		os.Exit(2)
	}
	switch os.Args[1] {
	case "run":
		os.Exit(cmdRun(os.Args[2:]))
	case "check":
		os.Exit(cmdCheck(os.Args[2:]))
	case "list":
		// gosym list <tier>: one line per harness run: property, harness, params, solver, whether it is in the quick tier
		tier := "thorough"
		if len(os.Args) > 2 {
			tier = os.Args[2]
		}
		var ids []string
		for id := range checks {
			ids = append(ids, id)
		}
		sort.Strings(ids)
		for _, id := range ids {
			pc := checks[id]
			inQuick := map[string]bool{}
			for _, r := range pc.Quick {
				inQuick[r.Harness+fmtParams(r.Params)+r.Solver] = true
			}
			runs := pc.Quick
			if tier == "thorough" {
				runs = pc.Thorough
			}
			for _, r := range runs {
				solver := r.Solver
				if solver == "" {
					solver = "z3"
				}
				ps := strings.TrimSuffix(fmtParams(r.Params), ",")
				if ps == "" {
					ps = "-"
				}
				fmt.Printf("%s %s %s %s quick=%v\n", id, r.Harness, solver, ps, inQuick[r.Harness+fmtParams(r.Params)+r.Solver])
			}
		}
	default:
		fmt.Fprintln(os.Stderr, "unknown command", os.Args[1])
		os.Exit(2)
	}
}
