package sym

import (
	"bufio"
	"fmt"
	"io"
	"os/exec"
	"strconv"
	"strings"
	"time"
)

// Solver drives one long-lived SMT solver process over stdin/stdout.
type Solver struct {
	Kind     string // "z3", "z3-new", "cvc5"
	cmd      *exec.Cmd
	in       io.WriteCloser
	out      *bufio.Reader
	declared map[string]bool
	Queries  int
	Time     time.Duration
	Log      io.Writer
	depth    int
	TimeoutMs int
}

type SatResult int

const (
	Unsat SatResult = iota
	Sat
	Unknown
)

func (r SatResult) String() string { return [...]string{"unsat", "sat", "unknown"}[r] }

func NewSolver(kind string, timeoutMs int) (*Solver, error) {
	var cmd *exec.Cmd
	switch kind {
	case "z3", "z3-new":
		cmd = exec.Command(kind, "-in", "-smt2")
	case "cvc5":
		cmd = exec.Command("cvc5", "--incremental", "--produce-models", "--lang=smt2", "--global-declarations", fmt.Sprintf("--tlimit-per=%d", timeoutMs))
	case "cvc5-int":
		cmd = exec.Command("cvc5", "--incremental", "--produce-models", "--lang=smt2", "--global-declarations", "--solve-bv-as-int=sum", fmt.Sprintf("--tlimit-per=%d", timeoutMs))
	default:
		return nil, fmt.Errorf("unknown solver %q", kind)
	}
	in, err := cmd.StdinPipe()
	if err != nil {
		return nil, err
	}
	out, err := cmd.StdoutPipe()
	if err != nil {
		return nil, err
	}
	cmd.Stderr = cmd.Stdout
	if err := cmd.Start(); err != nil {
		return nil, err
	}
	s := &Solver{Kind: kind, cmd: cmd, in: in, out: bufio.NewReaderSize(out, 1<<16), declared: map[string]bool{}, TimeoutMs: timeoutMs}
	if strings.HasPrefix(kind, "z3") {
		s.send("(set-option :global-declarations true)")
		s.send(fmt.Sprintf("(set-option :timeout %d)", timeoutMs))
		s.send("(set-option :produce-models true)")
	} else {
		s.send("(set-option :global-declarations true)")
		s.send("(set-logic ALL)")
	}
	return s, nil
}

func (s *Solver) Close() {
	if s == nil || s.cmd == nil {
		return
	}
	s.in.Close()
	_ = s.cmd.Process.Kill()
	_ = s.cmd.Wait()
	s.cmd = nil
}

func (s *Solver) send(line string) {
	if s.Log != nil {
		fmt.Fprintln(s.Log, line)
	}
	if _, err := io.WriteString(s.in, line+"\n"); err != nil {
		panic(&InternalError{Msg: "solver write: " + err.Error()})
	}
}

func (s *Solver) Push() { s.send("(push 1)"); s.depth++ }
func (s *Solver) Pop()  { s.send("(pop 1)"); s.depth-- }
func (s *Solver) PopTo(d int) {
	for s.depth > d {
		s.Pop()
	}
}
func (s *Solver) Depth() int { return s.depth }

// serialize writes t with let-bindings for shared sub-terms and declares
// variables on first use.
func (s *Solver) serialize(t *Term) string {
	refs := map[*Term]int{}
	var order []*Term
	var walk func(t *Term)
	walk = func(t *Term) {
		refs[t]++
		if refs[t] > 1 {
			return
		}
		if t.Op == OVar && !s.declared[t.Name] {
			s.declared[t.Name] = true
			switch {
			case t.FP:
				s.send(fmt.Sprintf("(declare-const %s (_ FloatingPoint 11 53))", t.Name))
			case t.W == 0:
				s.send(fmt.Sprintf("(declare-const %s Bool)", t.Name))
			default:
				s.send(fmt.Sprintf("(declare-const %s (_ BitVec %d))", t.Name, t.W))
			}
		}
		for _, a := range t.Args {
			walk(a)
		}
		order = append(order, t) // post-order: children first
	}
	walk(t)
	names := map[*Term]string{}
	var sb strings.Builder
	nlets := 0
	for _, n := range order {
		if refs[n] > 1 && len(n.Args) > 0 && n != t {
			var e strings.Builder
			n.write(&e, names)
			name := "?l" + strconv.Itoa(nlets)
			nlets++
			sb.WriteString("(let ((" + name + " " + e.String() + ")) ")
			names[n] = name
		}
	}
	t.write(&sb, names)
	for i := 0; i < nlets; i++ {
		sb.WriteString(")")
	}
	return sb.String()
}

func (s *Solver) Assert(t *Term) {
	if t.IsTrue() {
		return
	}
	s.send("(assert " + s.serialize(t) + ")")
}

func (s *Solver) readLine() string {
	line, err := s.out.ReadString('\n')
	if err != nil {
		panic(&InternalError{Msg: "solver read: " + err.Error() + " got " + line})
	}
	return strings.TrimSpace(line)
}

func (s *Solver) Check() SatResult {
	t0 := time.Now()
	s.send("(check-sat)")
	s.Queries++
	for {
		line := s.readLine()
		switch {
		case line == "sat":
			s.Time += time.Since(t0)
			return Sat
		case line == "unsat":
			s.Time += time.Since(t0)
			return Unsat
		case line == "unknown" || line == "timeout":
			s.Time += time.Since(t0)
			return Unknown
		case line == "":
		case strings.HasPrefix(line, "(error"):
			panic(&InternalError{Msg: "solver error: " + line})
		default:
			panic(&InternalError{Msg: "unexpected solver output: " + line})
		}
	}
}

// CheckWith checks satisfiability of the current assertions plus extra.
func (s *Solver) CheckWith(extra *Term) SatResult {
	if extra.IsFalse() {
		return Unsat
	}
	s.Push()
	s.Assert(extra)
	r := s.Check()
	s.Pop()
	return r
}

// readSexp reads one balanced s-expression from the solver.
func (s *Solver) readSexp() string {
	var sb strings.Builder
	depth := 0
	started := false
	for {
		c, err := s.out.ReadByte()
		if err != nil {
			panic(&InternalError{Msg: "solver read: " + err.Error()})
		}
		if !started {
			if c == '(' {
				started = true
			} else if c == ' ' || c == '\n' || c == '\r' || c == '\t' {
				continue
			} else {
				// atom
				sb.WriteByte(c)
				rest, _ := s.out.ReadString('\n')
				sb.WriteString(rest)
				return strings.TrimSpace(sb.String())
			}
		}
		sb.WriteByte(c)
		if c == '(' {
			depth++
		} else if c == ')' {
			depth--
			if depth == 0 {
				return sb.String()
			}
		}
	}
}

// Model returns values of the given variables after a sat answer (must be
// called before the scope of the check is popped).
func (s *Solver) Model(vars []*Term) map[string]uint64 {
	m := map[string]uint64{}
	for i := 0; i < len(vars); i += 50 {
		j := i + 50
		if j > len(vars) {
			j = len(vars)
		}
		var names []string
		for _, v := range vars[i:j] {
			if !s.declared[v.Name] {
				continue
			}
			if v.FP {
				names = append(names, "((_ fp.to_ieee_bv_or_self) "+v.Name+")")
				continue
			}
			names = append(names, v.Name)
		}
		if len(names) == 0 {
			continue
		}
		// FP vars are fetched one by one through a to-bits trick that is
		// portable: we ask for the value and parse (fp ...) literals.
		names = names[:0]
		for _, v := range vars[i:j] {
			if s.declared[v.Name] {
				names = append(names, v.Name)
			}
		}
		s.send("(get-value (" + strings.Join(names, " ") + "))")
		txt := s.readSexp()
		if strings.HasPrefix(txt, "(error") {
			panic(&InternalError{Msg: "get-value: " + txt})
		}
		parseModel(txt, m)
	}
	return m
}

// parseModel parses "((name value) (name value) ...)".
func parseModel(txt string, m map[string]uint64) {
	toks := tokenize(txt)
	// toks: ( ( name value... ) ( name ... ) )
	i := 1
	for i < len(toks)-1 {
		if toks[i] != "(" {
			i++
			continue
		}
		name := toks[i+1]
		// value: either atom or parenthesised
		j := i + 2
		var val []string
		if toks[j] == "(" {
			d := 0
			for {
				if toks[j] == "(" {
					d++
				} else if toks[j] == ")" {
					d--
				}
				val = append(val, toks[j])
				j++
				if d == 0 {
					break
				}
			}
		} else {
			val = []string{toks[j]}
			j++
		}
		m[name] = parseValue(val)
		i = j + 1 // skip ")"
	}
}

func tokenize(s string) []string {
	var toks []string
	cur := strings.Builder{}
	flush := func() {
		if cur.Len() > 0 {
			toks = append(toks, cur.String())
			cur.Reset()
		}
	}
	for i := 0; i < len(s); i++ {
		c := s[i]
		switch c {
		case '(', ')':
			flush()
			toks = append(toks, string(c))
		case ' ', '\n', '\t', '\r':
			flush()
		default:
			cur.WriteByte(c)
		}
	}
	flush()
	return toks
}

func parseValue(v []string) uint64 {
	if len(v) == 1 {
		a := v[0]
		switch {
		case a == "true":
			return 1
		case a == "false":
			return 0
		case strings.HasPrefix(a, "#x"):
			n, _ := strconv.ParseUint(a[2:], 16, 64)
			return n
		case strings.HasPrefix(a, "#b"):
			n, _ := strconv.ParseUint(a[2:], 2, 64)
			return n
		}
		panic(&InternalError{Msg: "cannot parse model value " + a})
	}
	// (fp #b0 #b... #x...) or (_ bvN w) or (_ +zero 11 53) etc.
	if v[1] == "fp" && len(v) == 6 {
		sgn := parseValue(v[2:3])
		exp := parseValue(v[3:4])
		man := parseBits(v[4])
		return sgn<<63 | exp<<52 | man
	}
	if v[1] == "_" {
		switch {
		case strings.HasPrefix(v[2], "bv"):
			n, _ := strconv.ParseUint(v[2][2:], 10, 64)
			return n
		case v[2] == "+zero":
			return 0
		case v[2] == "-zero":
			return 1 << 63
		case v[2] == "+oo":
			return 0x7ff << 52
		case v[2] == "-oo":
			return 0xfff << 52
		case v[2] == "NaN":
			return 0x7ff8 << 48
		}
	}
	panic(&InternalError{Msg: "cannot parse model value " + strings.Join(v, " ")})
}

func parseBits(a string) uint64 {
	if strings.HasPrefix(a, "#x") {
		n, _ := strconv.ParseUint(a[2:], 16, 64)
		return n
	}
	n, _ := strconv.ParseUint(a[2:], 2, 64)
	return n
}

// InternalError marks a defect or limitation of the engine (never a property verdict).
type InternalError struct {
	Msg   string
	Stack int
}

func (e *InternalError) Error() string { return e.Msg }
