package sym

// Structural hashing / equality of terms and cheap byte-domain reasoning used
// to resolve branch conditions that are syntactically implied by the path
// condition without calling the solver.

func (t *Term) Hash() uint64 {
	if t.h != 0 {
		return t.h
	}
	h := uint64(14695981039346656037)
	mix := func(x uint64) {
		h ^= x
		h *= 1099511628211
	}
	mix(uint64(t.Op) + 1)
	mix(uint64(t.W))
	mix(t.Val)
	mix(uint64(t.Hi)<<8 | uint64(t.Lo))
	for i := 0; i < len(t.Name); i++ {
		mix(uint64(t.Name[i]))
	}
	for _, a := range t.Args {
		mix(a.Hash())
	}
	if h == 0 {
		h = 1
	}
	t.h = h
	return h
}

func TermEqual(a, b *Term) bool {
	if a == b {
		return true
	}
	if a.Hash() != b.Hash() || a.Op != b.Op || a.W != b.W || a.FP != b.FP || a.Val != b.Val || a.Name != b.Name || a.Hi != b.Hi || a.Lo != b.Lo || len(a.Args) != len(b.Args) {
		return false
	}
	for i := range a.Args {
		if !TermEqual(a.Args[i], b.Args[i]) {
			return false
		}
	}
	return true
}

type byteSet [4]uint64

func (s *byteSet) has(v int) bool { return s[v>>6]&(1<<uint(v&63)) != 0 }
func (s *byteSet) empty() bool    { return s[0]|s[1]|s[2]|s[3] == 0 }

// atomSet recognises atoms "x op const" over an 8-bit variable x and returns
// the set of byte values satisfying it.
func atomSet(t *Term) (string, *byteSet, bool) {
	if len(t.Args) != 2 {
		return "", nil, false
	}
	a, b := t.Args[0], t.Args[1]
	var x *Term
	var c uint64
	left := true
	switch {
	case a.Op == OVar && a.W == 8 && b.IsConst():
		x, c = a, b.Val
	case b.Op == OVar && b.W == 8 && a.IsConst():
		x, c, left = b, a.Val, false
	default:
		return "", nil, false
	}
	var s byteSet
	for v := 0; v < 256; v++ {
		var ok bool
		xv, cv := uint64(v), c
		l, r := xv, cv
		if !left {
			l, r = cv, xv
		}
		switch t.Op {
		case OEq:
			ok = l == r
		case OULt:
			ok = l < r
		case OULe:
			ok = l <= r
		case OSLt:
			ok = int8(l) < int8(r)
		case OSLe:
			ok = int8(l) <= int8(r)
		default:
			return "", nil, false
		}
		if ok {
			s[v>>6] |= 1 << uint(v&63)
		}
	}
	return x.Name, &s, true
}

func (ex *Exec) domainFact(t *Term, val bool) {
	name, s, ok := atomSet(t)
	if !ok {
		return
	}
	if ex.domains == nil {
		ex.domains = map[string]*byteSet{}
	}
	d := ex.domains[name]
	if d == nil {
		d = &byteSet{^uint64(0), ^uint64(0), ^uint64(0), ^uint64(0)}
		ex.domains[name] = d
	}
	for i := range d {
		if val {
			d[i] &= s[i]
		} else {
			d[i] &^= s[i]
		}
	}
}

func (ex *Exec) domainLookup(t *Term) (bool, bool) {
	name, s, ok := atomSet(t)
	if !ok {
		return false, false
	}
	d := ex.domains[name]
	if d == nil {
		return false, false
	}
	inter, outside := false, false
	for i := range d {
		if d[i]&s[i] != 0 {
			inter = true
		}
		if d[i]&^s[i] != 0 {
			outside = true
		}
	}
	switch {
	case inter && !outside:
		return true, true
	case !inter && outside:
		return false, true
	}
	return false, false
}
