package sym

import (
	"go/types"
	"unicode/utf8"

	"golang.org/x/tools/go/ssa"
)

func (ex *Exec) callBuiltin(fr *frame, name string, args []Value, c *ssa.CallCommon, deferFor *frame) Value {
	switch name {
	case "len":
		switch x := args[0].(type) {
		case *StrVal:
			return BV(uint64(len(x.B)), 64)
		case SliceVal:
			return BV(uint64(x.Len), 64)
		case *MapVal:
			if x == nil {
				return BV(0, 64)
			}
			ex.fpMap(x, false) // the length is a read of the map (interleaving reduction footprint)
			return BV(uint64(len(x.Entries)), 64)
		case *ChanVal:
			if x == nil {
				return BV(0, 64)
			}
			return BV(uint64(len(x.Buf)), 64)
		case *ArrayVal:
			return BV(uint64(len(x.E)), 64)
		case Ptr:
			return BV(uint64(deref(c.Args[0].Type()).Underlying().(*types.Array).Len()), 64)
		}
	case "cap":
		switch x := args[0].(type) {
		case SliceVal:
			return BV(uint64(x.Cap), 64)
		case *ChanVal:
			if x == nil {
				return BV(0, 64)
			}
			return BV(uint64(x.Cap), 64)
		case *ArrayVal:
			return BV(uint64(len(x.E)), 64)
		}
	case "append":
		s := args[0].(SliceVal)
		var add []Value
		var et types.Type
		if c != nil {
			et = c.Args[0].Type().Underlying().(*types.Slice).Elem()
		}
		switch y := args[1].(type) {
		case SliceVal:
			add = append(add, ex.sliceElems(y)...)
		case *StrVal:
			for _, b := range y.B {
				add = append(add, b)
			}
		}
		if et == nil {
			ex.internal("append without static type")
		}
		return ex.appendSlice(s, add, et)
	case "copy":
		dst := args[0].(SliceVal)
		var src []Value
		switch y := args[1].(type) {
		case SliceVal:
			src = append(src, ex.sliceElems(y)...) // copy first: overlapping ranges
		case *StrVal:
			for _, b := range y.B {
				src = append(src, b)
			}
		}
		n := len(src)
		if dst.Len < n {
			n = dst.Len
		}
		for i := 0; i < n; i++ {
			ex.store(dst.elemPtr(i), src[i])
		}
		return BV(uint64(n), 64)
	case "delete":
		m := args[0].(*MapVal)
		if m != nil {
			if len(ex.guards) > 0 {
				ex.guardMap(m, true)
			}
			ex.mapDelete(m, args[1])
		}
		return nil
	case "close":
		ch := args[0].(*ChanVal)
		if ex.curThread != nil {
			ex.tClose(ch)
			return nil
		}
		if ch == nil {
			ex.goPanicf("close of nil channel")
		}
		if ch.Closed {
			ex.goPanicf("close of closed channel")
		}
		ex.chanMutable(ch)
		ch.Closed = true
		return nil
	case "recover":
		// valid only when called directly by a deferred function while panicking
		if fr != nil && fr.deferFor != nil && fr.deferFor.panicking != nil {
			gp := fr.deferFor.panicking
			fr.deferFor.panicking = nil
			if iv, ok := gp.Val.(IfaceVal); ok {
				return iv
			}
			return IfaceVal{T: types.Typ[types.String], V: MkStr(gp.Msg)}
		}
		return IfaceVal{}
	case "min", "max":
		t := c.Args[0].Type()
		r := args[0]
		for _, a := range args[1:] {
			x, y := r.(*Term), a.(*Term)
			var lt *Term
			switch {
			case x.FP:
				lt = FBin(OFLt, y, x)
			case isSigned(t):
				lt = Cmp(OSLt, y, x)
			default:
				lt = Cmp(OULt, y, x)
			}
			if name == "min" {
				r = Ite(lt, y, x)
			} else {
				r = Ite(lt, x, y)
			}
		}
		return r
	case "print", "println":
		return nil
	case "ssa:wrapnilchk":
		p := args[0].(Ptr)
		if p.Obj == nil {
			ex.goPanicf("value method called using nil pointer")
		}
		return p
	case "String": // unsafe.String(ptr, len)
		p := args[0].(Ptr)
		n := int(ex.Concretize(args[1].(*Term)))
		if n == 0 {
			return &StrVal{}
		}
		arr := ex.objVal(p.Obj).(*ArrayVal)
		off := p.Path[0]
		b := make([]*Term, n)
		for i := 0; i < n; i++ {
			b[i] = arr.E[off+i].(*Term)
		}
		// the string aliases the array: later stores into the array are
		// reflected in b (and in every substring, which shares b's storage)
		if ex.aliases == nil {
			ex.aliases = map[*Object][]aliasRec{}
		}
		ex.aliases[p.Obj] = append(ex.aliases[p.Obj], aliasRec{off: off, b: b})
		return &StrVal{b}
	case "StringData": // unsafe.StringData(s)
		s := args[0].(*StrVal)
		if len(s.B) == 0 {
			return Ptr{}
		}
		sl := ex.bytesToSlice(s.B)
		return Ptr{Obj: sl.Arr, Path: []int{0}}
	case "SliceData":
		s := args[0].(SliceVal)
		if s.Arr == nil {
			return Ptr{}
		}
		return s.elemPtr(0)
	case "Slice": // unsafe.Slice(ptr, len)
		p := args[0].(Ptr)
		n := int(ex.Concretize(args[1].(*Term)))
		if p.Obj == nil {
			if n != 0 {
				ex.goPanicf("unsafe.Slice: ptr is nil and len is not zero")
			}
			return SliceVal{}
		}
		return SliceVal{Arr: p.Obj, Off: p.Path[len(p.Path)-1], Len: n, Cap: n, Pre: append([]int{}, p.Path[:len(p.Path)-1]...)}
	case "clear":
		switch x := args[0].(type) {
		case *MapVal:
			if x != nil {
				ex.mapMutable(x)
				x.Entries = nil
			}
		case SliceVal:
			et := c.Args[0].Type().Underlying().(*types.Slice).Elem()
			for i := 0; i < x.Len; i++ {
				ex.store(x.elemPtr(i), Zero(et))
			}
		}
		return nil
	}
	ex.internal("unsupported builtin %s", name)
	return nil
}

func (ex *Exec) appendSlice(s SliceVal, add []Value, et types.Type) SliceVal {
	if len(add) == 0 {
		return s
	}
	need := s.Len + len(add)
	if need <= s.Cap && s.Arr != nil {
		for i, v := range add {
			ex.store(s.elemPtr(s.Len+i), v)
		}
		return SliceVal{Arr: s.Arr, Off: s.Off, Len: need, Cap: s.Cap, Pre: s.Pre}
	}
	newCap := need
	if s.Cap > 0 {
		if ex.Opt.AppendFork {
			if ex.Choose("append-cap", 2) == 1 {
				newCap = 2 * need
			}
		} else if 2*s.Cap > need {
			newCap = 2 * s.Cap
		}
	}
	elems := make([]Value, 0, need)
	elems = append(elems, ex.sliceElems(s)...)
	elems = append(elems, add...)
	return ex.newSlice(et, elems, newCap)
}

// ---- maps ----

func (ex *Exec) mapMutable(m *MapVal) {
	if m.Base && !ex.P.initPhase {
		ex.internal("mutation of a map allocated during package initialisation")
	}
}

// keyEq compares map keys; symbolic comparison forks.
func (ex *Exec) keyEq(a, b Value) bool {
	t := ex.valuesEqual(a, b, nil)
	return ex.Branch(t)
}

func (ex *Exec) fpMap(m *MapVal, write bool) {
	if ex.fpOn && m != nil && m.ID <= ex.fpMark {
		if write {
			ex.fpW[m.ID] = true
		} else {
			ex.fpR[m.ID] = true
		}
	}
}

func (ex *Exec) mapFind(m *MapVal, k Value) int {
	ex.fpMap(m, false)
	for i := range m.Entries {
		if ex.keyEq(m.Entries[i].K, k) {
			return i
		}
	}
	return -1
}

func (ex *Exec) mapSet(m *MapVal, k, v Value) {
	ex.fpMap(m, true)
	ex.mapMutable(m)
	if i := ex.mapFind(m, k); i >= 0 {
		m.Entries[i].V = v
		return
	}
	m.Entries = append(m.Entries, mapEntry{k, v})
}

func (ex *Exec) mapDelete(m *MapVal, k Value) {
	ex.fpMap(m, true)
	ex.mapMutable(m)
	if i := ex.mapFind(m, k); i >= 0 {
		ne := make([]mapEntry, 0, len(m.Entries)-1)
		ne = append(ne, m.Entries[:i]...)
		ne = append(ne, m.Entries[i+1:]...)
		m.Entries = ne
	}
}

func (ex *Exec) lookup(fr *frame, in *ssa.Lookup) Value {
	x := ex.get(fr, in.X)
	switch xv := x.(type) {
	case *StrVal:
		return ex.strIndex(xv, ex.get(fr, in.Index).(*Term))
	case *MapVal:
		if len(ex.guards) > 0 {
			ex.guardMap(xv, false)
		}
		vt := in.X.Type().Underlying().(*types.Map).Elem()
		var v Value
		found := false
		if xv != nil {
			if i := ex.mapFind(xv, ex.get(fr, in.Index)); i >= 0 {
				v, found = xv.Entries[i].V, true
			}
		}
		if !found {
			v = Zero(vt)
		}
		if in.CommaOk {
			return Tuple{v, Bool(found)}
		}
		return v
	}
	ex.internal("Lookup on %T", x)
	return nil
}

// ---- range ----

type rangeIter struct {
	str  *StrVal
	m    *MapVal
	keys []mapEntry
	pos  int
}

func (ex *Exec) rangeInit(x Value) Value {
	switch xv := x.(type) {
	case *StrVal:
		return &rangeIter{str: xv}
	case *MapVal:
		if len(ex.guards) > 0 {
			ex.guardMap(xv, false)
		}
		ex.fpMap(xv, false)
		it := &rangeIter{m: xv}
		if xv != nil {
			it.keys = append(it.keys, xv.Entries...)
		}
		return it
	}
	ex.internal("range over %T", x)
	return nil
}

func (ex *Exec) rangeNext(it *rangeIter, in *ssa.Next) Value {
	if in.IsString {
		if it.pos >= len(it.str.B) {
			return Tuple{False, BV(0, 64), BV(0, 32)}
		}
		i := it.pos
		r, size := ex.decodeRune(it.str.B[i:])
		it.pos += size
		return Tuple{True, BV(uint64(i), 64), r}
	}
	// map: insertion order, skipping entries deleted during iteration
	tt := in.Type().(*types.Tuple)
	for it.pos < len(it.keys) {
		e := it.keys[it.pos]
		it.pos++
		// still present?
		present := false
		var cur Value
		for _, me := range it.m.Entries {
			if ex.valuesEqual(me.K, e.K, nil).IsTrue() {
				present, cur = true, me.V
				break
			}
		}
		if present {
			return Tuple{True, e.K, cur}
		}
	}
	return Tuple{False, Zero(tt.At(1).Type()), Zero(tt.At(2).Type())}
}

// decodeRune models utf8.DecodeRuneInString on symbolic bytes. ASCII is
// exact; for a lead byte >= 0x80 the decoded rune is over-approximated by an
// unconstrained value >= 0x80 and the width forks over 1..min(4, remaining).
func (ex *Exec) decodeRune(b []*Term) (*Term, int) {
	c := b[0]
	if c.IsConst() && c.Val < 0x80 {
		return ZExt(c, 32), 1
	}
	allConst := true
	n := 0
	for n < len(b) && n < 4 {
		if !b[n].IsConst() {
			allConst = false
		}
		n++
	}
	if allConst {
		bs := make([]byte, n)
		for i := range bs {
			bs[i] = byte(b[i].Val)
		}
		r, size := decodeRuneConcrete(bs)
		return BV(uint64(r), 32), size
	}
	if ex.Branch(Cmp(OULt, c, BV(0x80, 8))) {
		return ZExt(c, 32), 1
	}
	size := 1 + ex.Choose("rune-width", n)
	r := ex.freshVar("rune", 32)
	ex.Assume(Cmp(OULe, BV(0x80, 32), r))
	ex.Assume(Cmp(OULe, r, BV(0x10FFFF, 32)))
	return r, size
}

// ---- channels (sequential subset) ----

func (ex *Exec) chanMutable(c *ChanVal) {
	if c.Base && !ex.P.initPhase {
		ex.internal("mutation of a channel allocated during package initialisation")
	}
}

func (ex *Exec) chanSend(c *ChanVal, v Value) {
	if c == nil {
		ex.internal("send on nil channel blocks forever")
	}
	if c.Closed {
		ex.goPanicf("send on closed channel")
	}
	if len(c.Buf) < c.Cap {
		ex.chanMutable(c)
		c.Buf = append(c.Buf, v)
		return
	}
	ex.internal("blocking channel send in sequential executor")
}

func (ex *Exec) chanRecv(c *ChanVal) (Value, bool) {
	if c == nil {
		ex.internal("receive on nil channel blocks forever")
	}
	if len(c.Buf) > 0 {
		ex.chanMutable(c)
		v := c.Buf[0]
		c.Buf = c.Buf[1:]
		return v, true
	}
	if c.Closed {
		return Zero(c.Elem), false
	}
	where := ""
	if ex.curFrame != nil {
		where = ex.curFrame.fn.String()
	}
	panic(&hangAbort{Msg: "receive from a channel nothing will ever send on or close", Where: where})
}

func (ex *Exec) chanReadyRecv(c *ChanVal) bool {
	return c != nil && (len(c.Buf) > 0 || c.Closed)
}

func (ex *Exec) chanReadySend(c *ChanVal) bool {
	if c == nil {
		return false
	}
	if c.Closed {
		return true // will panic
	}
	return len(c.Buf) < c.Cap
}

// selectOp: among ready cases the choice is a forked nondeterministic choice.
func (ex *Exec) selectOp(fr *frame, in *ssa.Select) Value {
	var ready []int
	for i, st := range in.States {
		ch := ex.get(fr, st.Chan).(*ChanVal)
		if st.Dir == types.SendOnly {
			if ex.chanReadySend(ch) {
				ready = append(ready, i)
			}
		} else if ex.chanReadyRecv(ch) {
			ready = append(ready, i)
		}
	}
	tt := in.Type().(*types.Tuple)
	res := make(Tuple, tt.Len())
	for i := 2; i < tt.Len(); i++ {
		res[i] = Zero(tt.At(i).Type())
	}
	if len(ready) == 0 {
		if !in.Blocking {
			res[0], res[1] = BV(^uint64(0), 64), False
			return res
		}
		// nothing in the scenario can ever make a case ready (the harness is the whole world):
		// the program hangs here. Reported as a Go-level fatal; only a native hang confirms it.
		where := ""
		if ex.curFrame != nil {
			where = ex.curFrame.fn.String()
		}
		panic(&hangAbort{Msg: "select with no case that can ever become ready", Where: where})
	}
	pick := ready[0]
	if len(ready) > 1 {
		pick = ready[ex.Choose("select", len(ready))]
	}
	st := in.States[pick]
	ch := ex.get(fr, st.Chan).(*ChanVal)
	res[0] = BV(uint64(pick), 64)
	res[1] = False
	if st.Dir == types.SendOnly {
		ex.chanSend(ch, ex.get(fr, st.Send))
	} else {
		v, ok := ex.chanRecv(ch)
		res[1] = Bool(ok)
		// position of this receive among receive states
		k := 2
		for i := 0; i < pick; i++ {
			if in.States[i].Dir == types.RecvOnly {
				k++
			}
		}
		if k < len(res) {
			res[k] = v
		}
	}
	return res
}

func (ex *Exec) goStmt(fr *frame, in *ssa.Go) {
	if ex.Opt.Threads || ex.curThread != nil || len(ex.threads) > 0 {
		ex.goStmtThread(fr, in)
		return
	}
	if ex.P.goHook != nil {
		ex.P.goHook(ex, fr, in)
		return
	}
	ex.internal("go statement in sequential executor")
}

func decodeRuneConcrete(b []byte) (rune, int) { return utf8.DecodeRune(b) }
