package sym

import (
	"fmt"
	"go/constant"
	"go/token"
	"go/types"
	"strings"
	"time"

	"golang.org/x/tools/go/ssa"
)

// goPanic is a panic of the interpreted Go program.
type goPanic struct {
	Val   Value // the panic value (interface)
	Msg   string
	Where string
}

// pathAbort ends the current path (assumption false, or stop after violation).
type pathAbort struct{ Reason string }

type deferred struct {
	fn   Value
	args []Value
	// for invoke-mode defers
	method *types.Func
	recv   Value
}

type frame struct {
	fn        *ssa.Function
	env       map[ssa.Value]Value
	defers    []*deferred
	panicking *goPanic
	caller    *frame
	deferFor  *frame // frame whose deferred call this is
	prev      *ssa.BasicBlock
	results   Value
	depth     int
}

// Exec executes one path at a time.
type Exec struct {
	P      *Program
	S      *Solver
	Opt    Options
	shadow map[*Object]Value
	nobj   int

	// decision log
	prefix     []decision
	decisionsX []decision
	decisions  []decision
	pcTerms    []*Term
	pending    []*Term
	pushed     bool
	facts      map[uint64][]fact
	models     []map[string]uint64
	domains    map[string]*byteSet
	known      map[string]*Term

	// symbolic inputs of this run in creation order
	inputs   []*Term
	inputSeq map[string]int
	nondets  []NondetRec

	steps     int
	callDepth int
	out       *PathResult
	exp       *Explorer
	sample    map[string]interface{}
	// counters
	queries, unknowns                               int
	solverTime                                      time.Duration
	assertsReached, assertsSMT, assertsConcrete     int
	fastResolved, modelSaved                        int
	covers, assertLabels                            map[string]int
	// per-run native state for stubs
	mutexState map[*Object]int
	natState   map[string]interface{}
	funcsRun   map[*ssa.Function]bool
	curFrame   *frame
	observes   []string
	inTolerantInit bool
	aliases    map[*Object][]aliasRec
	guards     []guardRec
	// interpreted goroutines
	threads    []*thread
	curThread  *thread
	crashed    *goPanic
	crashedIn  string
	schedTrace []string
	schedSteps []SchedStep
	maxSched   int
	// sleep-set partial-order reduction
	preAt      map[int][]sleepEntry
	sleep      []sleepEntry
	fpOn       bool
	fpMark     int
	fpR, fpW   map[int]bool
	sleepBlocked int
	outcome    string
}

type aliasRec struct {
	off int
	b   []*Term
}

type fact struct {
	t   *Term
	val bool
}

type NondetRec struct {
	Tag  string   `json:"tag"`
	Ord  int      `json:"ord"`
	Kind string   `json:"kind"`
	Vars []string `json:"-"`
	Len  int      `json:"-"`
	Conc int64    `json:"-"`
	// filled from the model
	V interface{} `json:"v"`
}

type Options struct {
	MaxSteps     int
	MaxCallDepth int
	AppendFork   bool // fork append growth over {needed, 2*needed}
	Threads      bool // interpret go statements as schedulable threads
	NoPOR        bool // disable the sleep-set reduction of interleavings
	Verbose      bool
}

func (ex *Exec) internal(format string, a ...interface{}) {
	msg := fmt.Sprintf(format, a...)
	if ex.curFrame != nil {
		msg += " [in " + ex.curFrame.fn.String() + "]"
	}
	panic(&InternalError{Msg: msg})
}

// hangAbort: in a sequential harness (which is the whole world of the scenario) the code
// under test waits for something that can never happen. No defer runs, nothing recovers it.
type hangAbort struct{ Msg, Where string }

func (ex *Exec) goPanicf(format string, a ...interface{}) {
	msg := fmt.Sprintf(format, a...)
	where := ""
	if ex.curFrame != nil {
		where = ex.curFrame.fn.String()
	}
	panic(&goPanic{Val: IfaceVal{T: ex.P.runtimeErrType, V: MkStr(msg)}, Msg: "runtime error: " + msg, Where: where})
}

func (ex *Exec) newObject(t types.Type, v Value) *Object {
	ex.nobj++
	return &Object{ID: ex.nobj, Val: v, Typ: t, Base: ex.P.initPhase}
}

func (ex *Exec) objVal(o *Object) Value {
	if o.Base && !ex.P.initPhase {
		if v, ok := ex.shadow[o]; ok {
			return v
		}
	}
	return o.Val
}

func (ex *Exec) setObj(o *Object, v Value) {
	if o.Base && !ex.P.initPhase {
		ex.shadow[o] = v
		return
	}
	o.Val = v
}

func child(v Value, i int) Value {
	switch x := v.(type) {
	case *StructVal:
		return x.F[i]
	case *ArrayVal:
		if i < 0 || i >= len(x.E) {
			panic(&InternalError{Msg: fmt.Sprintf("array child index %d out of %d", i, len(x.E))})
		}
		return x.E[i]
	}
	panic(&InternalError{Msg: fmt.Sprintf("child of %T", v)})
}

func update(v Value, path []int, nv Value) Value {
	if len(path) == 0 {
		return nv
	}
	switch x := v.(type) {
	case *StructVal:
		f := make([]Value, len(x.F))
		copy(f, x.F)
		f[path[0]] = update(x.F[path[0]], path[1:], nv)
		return &StructVal{f}
	case *ArrayVal:
		e := make([]Value, len(x.E))
		copy(e, x.E)
		e[path[0]] = update(x.E[path[0]], path[1:], nv)
		return &ArrayVal{e}
	}
	panic(&InternalError{Msg: fmt.Sprintf("update of %T", v)})
}

func (ex *Exec) load(p Ptr) Value {
	if p.Obj == nil {
		ex.goPanicf("invalid memory address or nil pointer dereference")
	}
	if ex.fpOn && (p.Obj.ID <= ex.fpMark) {
		ex.fpR[p.Obj.ID] = true
	}
	v := ex.objVal(p.Obj)
	for _, i := range p.Path {
		v = child(v, i)
	}
	if a, ok := v.(*ArrayVal); ok && len(p.Path) == 0 {
		e := make([]Value, len(a.E))
		copy(e, a.E)
		return &ArrayVal{e}
	}
	return v
}

func (ex *Exec) store(p Ptr, nv Value) {
	if p.Obj == nil {
		ex.goPanicf("invalid memory address or nil pointer dereference")
	}
	if ex.fpOn && (p.Obj.ID <= ex.fpMark) {
		ex.fpW[p.Obj.ID] = true
	}
	root := ex.objVal(p.Obj)
	if recs, ok := ex.aliases[p.Obj]; ok && len(p.Path) == 1 {
		if t, isT := nv.(*Term); isT {
			for _, r := range recs {
				if i := p.Path[0] - r.off; i >= 0 && i < len(r.b) {
					r.b[i] = t
				}
			}
		}
	}
	if a, ok := root.(*ArrayVal); ok && len(p.Path) == 1 && !p.Obj.Base {
		a.E[p.Path[0]] = nv
		return
	}
	if a, ok := nv.(*ArrayVal); ok {
		e := make([]Value, len(a.E))
		copy(e, a.E)
		nv = &ArrayVal{e}
	}
	ex.setObj(p.Obj, update(root, p.Path, nv))
}

// arrayOf returns the element slice of the array a slice header points into.
func (ex *Exec) arrayOf(s SliceVal) []Value {
	if s.Arr == nil {
		return nil
	}
	v := ex.objVal(s.Arr)
	for _, i := range s.Pre {
		switch x := v.(type) {
		case *StructVal:
			v = x.F[i]
		case *ArrayVal:
			v = x.E[i]
		default:
			ex.internal("slice prefix path through %T", v)
		}
	}
	return v.(*ArrayVal).E
}

func (ex *Exec) sliceElems(s SliceVal) []Value {
	if s.Arr == nil {
		return nil
	}
	return ex.arrayOf(s)[s.Off : s.Off+s.Len]
}

func (ex *Exec) newSlice(elem types.Type, elems []Value, capacity int) SliceVal {
	if capacity < len(elems) {
		capacity = len(elems)
	}
	e := make([]Value, capacity)
	copy(e, elems)
	if capacity > len(elems) {
		z := Zero(elem)
		for i := len(elems); i < capacity; i++ {
			e[i] = z
		}
	}
	obj := ex.newObject(types.NewArray(elem, int64(capacity)), &ArrayVal{e})
	return SliceVal{Arr: obj, Off: 0, Len: len(elems), Cap: capacity}
}

func (ex *Exec) bytesToSlice(b []*Term) SliceVal {
	e := make([]Value, len(b))
	for i := range b {
		e[i] = b[i]
	}
	return ex.newSlice(types.Typ[types.Uint8], e, len(e))
}

func (ex *Exec) sliceToStr(s SliceVal) *StrVal {
	el := ex.sliceElems(s)
	b := make([]*Term, len(el))
	for i := range el {
		b[i] = el[i].(*Term)
	}
	return &StrVal{b}
}

// ---- constants ----

func (ex *Exec) constValue(c *ssa.Const) Value {
	t := c.Type()
	if c.Value == nil {
		return Zero(t)
	}
	if b, ok := t.Underlying().(*types.Basic); ok {
		switch {
		case b.Info()&types.IsBoolean != 0:
			return Bool(constant.BoolVal(c.Value))
		case b.Info()&types.IsString != 0:
			return MkStr(constant.StringVal(c.Value))
		case b.Info()&types.IsInteger != 0:
			w, signed, _ := bvWidth(t)
			if signed {
				return BV(uint64(c.Int64()), w)
			}
			return BV(c.Uint64(), w)
		case b.Info()&types.IsFloat != 0:
			return F64(c.Float64())
		}
	}
	ex.internal("unsupported constant %v of type %v", c, t)
	return nil
}

func (ex *Exec) get(fr *frame, v ssa.Value) Value {
	switch x := v.(type) {
	case *ssa.Const:
		return ex.constValue(x)
	case *ssa.Function:
		return &Closure{Fn: x}
	case *ssa.Global:
		return Ptr{Obj: ex.P.global(x)}
	case *ssa.Builtin:
		return &Closure{Name: "builtin:" + x.Name()}
	}
	r, ok := fr.env[v]
	if !ok {
		ex.internal("no value for %s (%T) in %s", v.Name(), v, fr.fn)
	}
	return r
}

// ---- running functions ----

func (ex *Exec) callFunction(caller *frame, fn *ssa.Function, args []Value, bind []Value, deferFor *frame) (ret Value) {
	if native, ok := ex.P.intercepts[fn.String()]; ok {
		return native(ex, caller, fn, args)
	}
	if isPkgInit(fn) {
		if !ex.P.allowInit(fn) {
			return nil
		}
		if !ex.P.repoPkg[fn.Pkg.Pkg.Path()] && !ex.inTolerantInit {
			// initialisers of dependencies are best effort: a construct the
			// executor does not support leaves the remaining globals of that
			// package at their zero values (reported as InitPartial).
			ex.inTolerantInit = true
			defer func() {
				ex.inTolerantInit = false
				if r := recover(); r != nil {
					ie, ok := r.(*InternalError)
					if !ok {
						panic(r)
					}
					ex.P.InitPartial = append(ex.P.InitPartial, fn.Pkg.Pkg.Path()+": "+ie.Msg)
					ret = nil
				}
			}()
		}
	}
	if fn.Blocks == nil {
		if fn.Synthetic == "" && fn.Pkg == nil && fn.Origin() != nil {
			ex.internal("uninstantiated generic %s", fn)
		}
		ex.internal("unsupported external function %s", fn)
	}
	if ex.callDepth > ex.Opt.MaxCallDepth {
		ex.internal("call depth exceeded at %s", fn)
	}
	if ex.funcsRun != nil {
		ex.funcsRun[fn] = true
	}
	ex.callDepth++
	fr := &frame{fn: fn, env: make(map[ssa.Value]Value, 16), caller: caller, deferFor: deferFor}
	for i, p := range fn.Params {
		fr.env[p] = args[i]
	}
	for i, fv := range fn.FreeVars {
		fr.env[fv] = bind[i]
	}
	saved := ex.curFrame
	ex.curFrame = fr
	defer func() {
		ex.callDepth--
		ex.curFrame = saved
		if r := recover(); r != nil {
			gp, ok := r.(*goPanic)
			if !ok {
				if ie, isIE := r.(*InternalError); isIE && ie.Stack < 6 {
					ie.Stack++
					ie.Msg += " <- " + fn.String()
				}
				panic(r)
			}
			ex.curFrame = fr
			fr.panicking = gp
			ex.runDefers(fr)
			ex.curFrame = saved
			if fr.panicking != nil {
				panic(fr.panicking)
			}
			// recovered
			if fn.Recover != nil {
				ex.callDepth++
				ex.curFrame = fr
				ret = ex.runBlocks(fr, fn.Recover)
				ex.curFrame = saved
				ex.callDepth--
			} else {
				ret = zeroResults(fn.Signature.Results())
			}
		}
	}()
	return ex.runBlocks(fr, fn.Blocks[0])
}

func zeroResults(r *types.Tuple) Value {
	switch r.Len() {
	case 0:
		return nil
	case 1:
		return Zero(r.At(0).Type())
	}
	return Zero(r)
}

func (ex *Exec) runDefers(fr *frame) {
	for len(fr.defers) > 0 {
		d := fr.defers[len(fr.defers)-1]
		fr.defers = fr.defers[:len(fr.defers)-1]
		func() {
			defer func() {
				if r := recover(); r != nil {
					gp, ok := r.(*goPanic)
					if !ok {
						panic(r)
					}
					// a panic in a deferred call replaces the current one
					fr.panicking = gp
				}
			}()
			ex.callValue(fr, d.fn, d.args, fr)
		}()
	}
}

func (ex *Exec) callValue(caller *frame, f Value, args []Value, deferFor *frame) Value {
	c, ok := f.(*Closure)
	if !ok || c == nil {
		ex.goPanicf("invalid memory address or nil pointer dereference (nil func call)")
	}
	if c.Native != nil {
		return c.Native(ex, args)
	}
	if c.Fn == nil {
		return ex.callBuiltin(caller, strings.TrimPrefix(c.Name, "builtin:"), args, nil, deferFor)
	}
	return ex.callFunction(caller, c.Fn, args, c.Bind, deferFor)
}

func (ex *Exec) runBlocks(fr *frame, b *ssa.BasicBlock) Value {
	for {
		var next *ssa.BasicBlock
		for _, instr := range b.Instrs {
			ex.steps++
			if ex.steps > ex.Opt.MaxSteps {
				panic(&pathAbort{Reason: "UNWIND-EXCEEDED: step budget exhausted in " + fr.fn.String()})
			}
			switch in := instr.(type) {
			case *ssa.Return:
				switch len(in.Results) {
				case 0:
					fr.results = nil
				case 1:
					fr.results = ex.get(fr, in.Results[0])
				default:
					t := make(Tuple, len(in.Results))
					for i, r := range in.Results {
						t[i] = ex.get(fr, r)
					}
					fr.results = t
				}
				return fr.results
			case *ssa.Jump:
				next = b.Succs[0]
			case *ssa.If:
				c := ex.get(fr, in.Cond).(*Term)
				if ex.Branch(c) {
					next = b.Succs[0]
				} else {
					next = b.Succs[1]
				}
			case *ssa.Panic:
				v := ex.get(fr, in.X)
				panic(&goPanic{Val: v, Msg: "panic: " + ex.describePanic(v), Where: fr.fn.String()})
			default:
				ex.exec(fr, instr)
			}
		}
		if next == nil {
			ex.internal("block %d of %s fell through", b.Index, fr.fn)
		}
		fr.prev = b
		b = next
	}
}

func (ex *Exec) describePanic(v Value) string {
	if iv, ok := v.(IfaceVal); ok {
		if iv.T == nil {
			return "nil"
		}
		if s, ok := iv.V.(*StrVal); ok {
			return s.String()
		}
		if p, ok := iv.V.(Ptr); ok && p.Obj != nil {
			// *errors.errorString and friends: show first string field
			if sv, ok := ex.objVal(p.Obj).(*StructVal); ok && len(sv.F) > 0 {
				if s, ok := sv.F[0].(*StrVal); ok {
					return iv.T.String() + " " + s.String()
				}
			}
		}
		return iv.T.String()
	}
	return showValue(v)
}

func (ex *Exec) exec(fr *frame, instr ssa.Instruction) {
	switch in := instr.(type) {
	case *ssa.DebugRef:
	case *ssa.Alloc:
		et := deref(in.Type())
		fr.env[in] = Ptr{Obj: ex.newObject(et, Zero(et))}
	case *ssa.Phi:
		for i, p := range in.Block().Preds {
			if p == fr.prev {
				fr.env[in] = ex.get(fr, in.Edges[i])
				return
			}
		}
		ex.internal("phi: no matching predecessor")
	case *ssa.BinOp:
		fr.env[in] = ex.binop(in.Op, ex.get(fr, in.X), ex.get(fr, in.Y), in.X.Type(), in.Y.Type())
	case *ssa.UnOp:
		fr.env[in] = ex.unop(fr, in)
	case *ssa.Call:
		fr.env[in] = ex.doCall(fr, &in.Call, nil)
	case *ssa.Store:
		if len(ex.guards) > 0 {
			ex.guardAccess(ex.get(fr, in.Addr).(Ptr), true)
		}
		ex.storeChecked(fr, ex.get(fr, in.Addr).(Ptr), ex.get(fr, in.Val))
	case *ssa.FieldAddr:
		p := ex.get(fr, in.X).(Ptr)
		if p.Obj == nil {
			ex.goPanicf("invalid memory address or nil pointer dereference")
		}
		np := make([]int, len(p.Path)+1)
		copy(np, p.Path)
		np[len(p.Path)] = in.Field
		fr.env[in] = Ptr{Obj: p.Obj, Path: np}
	case *ssa.Field:
		fr.env[in] = ex.get(fr, in.X).(*StructVal).F[in.Field]
	case *ssa.IndexAddr:
		fr.env[in] = ex.indexAddr(fr, in)
	case *ssa.Index:
		x := ex.get(fr, in.X)
		switch xv := x.(type) {
		case *ArrayVal:
			idx := ex.indexIn(ex.get(fr, in.Index).(*Term), len(xv.E))
			fr.env[in] = xv.E[idx]
		case *StrVal:
			fr.env[in] = ex.strIndex(xv, ex.get(fr, in.Index).(*Term))
		default:
			ex.internal("Index on %T", x)
		}
	case *ssa.Lookup:
		fr.env[in] = ex.lookup(fr, in)
	case *ssa.Slice:
		fr.env[in] = ex.sliceOp(fr, in)
	case *ssa.MakeSlice:
		l := ex.Concretize(ex.get(fr, in.Len).(*Term))
		c := ex.Concretize(ex.get(fr, in.Cap).(*Term))
		et := in.Type().Underlying().(*types.Slice).Elem()
		// the runtime's rule: panic when len/cap are inconsistent or the allocation would
		// exceed the address space limit (2^48 bytes on linux/amd64)
		esz := types.SizesFor("gc", "amd64").Sizeof(et)
		if esz < 1 {
			esz = 1
		}
		if l < 0 || c < l || c > (1<<48)/esz {
			ex.goPanicf("makeslice: len/cap out of range (%d,%d)", l, c)
		}
		if c > 1<<24 {
			ex.internal("make of %d elements: larger than the executor models", c)
		}
		s := ex.newSlice(et, nil, int(c))
		s.Len = int(l)
		fr.env[in] = s
	case *ssa.MakeMap:
		ex.nobj++
		fr.env[in] = &MapVal{ID: ex.nobj, Base: ex.P.initPhase}
	case *ssa.MapUpdate:
		m := ex.get(fr, in.Map).(*MapVal)
		if m == nil {
			ex.goPanicf("assignment to entry in nil map")
		}
		if len(ex.guards) > 0 {
			ex.guardMap(m, true)
		}
		ex.mapSet(m, ex.get(fr, in.Key), ex.get(fr, in.Value))
	case *ssa.MakeChan:
		c := ex.Concretize(ex.get(fr, in.Size).(*Term))
		ex.nobj++
		fr.env[in] = &ChanVal{ID: ex.nobj, Cap: int(c), Base: ex.P.initPhase, Elem: in.Type().Underlying().(*types.Chan).Elem()}
	case *ssa.MakeClosure:
		b := make([]Value, len(in.Bindings))
		for i, v := range in.Bindings {
			b[i] = ex.get(fr, v)
		}
		fr.env[in] = &Closure{Fn: in.Fn.(*ssa.Function), Bind: b}
	case *ssa.MakeInterface:
		fr.env[in] = IfaceVal{T: in.X.Type(), V: ex.get(fr, in.X)}
	case *ssa.ChangeInterface:
		fr.env[in] = ex.get(fr, in.X)
	case *ssa.ChangeType:
		fr.env[in] = ex.get(fr, in.X)
	case *ssa.Convert:
		fr.env[in] = ex.convert(ex.get(fr, in.X), in.X.Type(), in.Type())
	case *ssa.TypeAssert:
		fr.env[in] = ex.typeAssert(fr, in)
	case *ssa.Extract:
		fr.env[in] = ex.get(fr, in.Tuple).(Tuple)[in.Index]
	case *ssa.Defer:
		d := &deferred{}
		if in.Call.IsInvoke() {
			recv := ex.get(fr, in.Call.Value).(IfaceVal)
			fn := ex.lookupMethod(recv, in.Call.Method)
			d.fn = &Closure{Fn: fn}
			d.args = append([]Value{recv.V}, ex.getArgs(fr, in.Call.Args)...)
		} else {
			d.fn = ex.get(fr, in.Call.Value)
			d.args = ex.getArgs(fr, in.Call.Args)
		}
		fr.defers = append(fr.defers, d)
	case *ssa.RunDefers:
		ex.runDefers(fr)
		if fr.panicking != nil {
			gp := fr.panicking
			fr.panicking = nil
			panic(gp)
		}
	case *ssa.Send:
		if ex.curThread != nil {
			ex.tSend(ex.get(fr, in.Chan).(*ChanVal), ex.get(fr, in.X))
		} else {
			ex.chanSend(ex.get(fr, in.Chan).(*ChanVal), ex.get(fr, in.X))
		}
	case *ssa.Select:
		if ex.curThread != nil {
			fr.env[in] = ex.tSelect(fr, in)
		} else {
			fr.env[in] = ex.selectOp(fr, in)
		}
	case *ssa.Range:
		fr.env[in] = ex.rangeInit(ex.get(fr, in.X))
	case *ssa.Next:
		fr.env[in] = ex.rangeNext(ex.get(fr, in.Iter).(*rangeIter), in)
	case *ssa.Go:
		ex.goStmt(fr, in)
	case *ssa.SliceToArrayPointer:
		s := ex.get(fr, in.X).(SliceVal)
		if s.Arr == nil {
			fr.env[in] = Ptr{}
		} else {
			ex.internal("SliceToArrayPointer unsupported")
		}
	default:
		ex.internal("unsupported instruction %T: %s", instr, instr)
	}
}

func (ex *Exec) storeChecked(fr *frame, p Ptr, v Value) {
	if ex.P.storeHook != nil {
		ex.P.storeHook(ex, p, v)
	}
	ex.store(p, v)
}

func (ex *Exec) getArgs(fr *frame, args []ssa.Value) []Value {
	r := make([]Value, len(args))
	for i, a := range args {
		r[i] = ex.get(fr, a)
	}
	return r
}

func (ex *Exec) lookupMethod(recv IfaceVal, m *types.Func) *ssa.Function {
	if recv.T == nil {
		ex.goPanicf("invalid memory address or nil pointer dereference (method %s on nil interface)", m.Name())
	}
	fn := ex.P.Prog.LookupMethod(recv.T, m.Pkg(), m.Name())
	if fn == nil {
		ex.internal("no method %s on %s", m.Name(), recv.T)
	}
	return fn
}

func (ex *Exec) doCall(fr *frame, c *ssa.CallCommon, deferFor *frame) Value {
	if c.IsInvoke() {
		recv := ex.get(fr, c.Value).(IfaceVal)
		if recv.T != nil {
			if nat, ok := ex.P.nativeMethods[nativeKey{recv.T.String(), c.Method.Name()}]; ok {
				return nat(ex, recv, ex.getArgs(fr, c.Args))
			}
		}
		fn := ex.lookupMethod(recv, c.Method)
		args := append([]Value{recv.V}, ex.getArgs(fr, c.Args)...)
		return ex.callFunction(fr, fn, args, nil, deferFor)
	}
	args := ex.getArgs(fr, c.Args)
	switch callee := c.Value.(type) {
	case *ssa.Builtin:
		return ex.callBuiltin(fr, callee.Name(), args, c, deferFor)
	case *ssa.Function:
		return ex.callFunction(fr, callee, args, nil, deferFor)
	}
	return ex.callValue(fr, ex.get(fr, c.Value), args, deferFor)
}

// ---- operators ----

func isSigned(t types.Type) bool {
	_, s, _ := bvWidth(t)
	return s
}

func isFloat(t types.Type) bool {
	b, ok := t.Underlying().(*types.Basic)
	return ok && b.Info()&types.IsFloat != 0
}

func (ex *Exec) valuesEqual(a, b Value, t types.Type) *Term {
	switch x := a.(type) {
	case *Term:
		return Eq(x, b.(*Term))
	case *StrVal:
		return StrEq(x, b.(*StrVal))
	case Ptr:
		y := b.(Ptr)
		if x.Obj != y.Obj || len(x.Path) != len(y.Path) {
			return False
		}
		for i := range x.Path {
			if x.Path[i] != y.Path[i] {
				return False
			}
		}
		return True
	case IfaceVal:
		y := b.(IfaceVal)
		if x.T == nil || y.T == nil {
			return Bool(x.T == nil && y.T == nil)
		}
		if !types.Identical(x.T, y.T) {
			return False
		}
		if !types.Comparable(x.T) {
			ex.goPanicf("comparing uncomparable type %s", x.T)
		}
		return ex.valuesEqual(x.V, y.V, x.T)
	case *StructVal:
		y := b.(*StructVal)
		r := True
		st := t.Underlying().(*types.Struct)
		for i := range x.F {
			r = And(r, ex.valuesEqual(x.F[i], y.F[i], st.Field(i).Type()))
		}
		return r
	case *ArrayVal:
		y := b.(*ArrayVal)
		r := True
		et := t.Underlying().(*types.Array).Elem()
		for i := range x.E {
			r = And(r, ex.valuesEqual(x.E[i], y.E[i], et))
		}
		return r
	case *ChanVal:
		return Bool(x == b.(*ChanVal))
	case *MapVal:
		// only comparison with nil is legal
		y := b.(*MapVal)
		return Bool((x == nil) == (y == nil) && (x == nil || x == y))
	case *Closure:
		y := b.(*Closure)
		return Bool((x == nil) && (y == nil))
	case SliceVal:
		y := b.(SliceVal)
		return Bool(x.Arr == nil && y.Arr == nil)
	case nil:
		return Bool(b == nil)
	}
	ex.internal("valuesEqual on %T", a)
	return nil
}

func (ex *Exec) binop(op token.Token, x, y Value, xt, yt types.Type) Value {
	switch op {
	case token.EQL:
		return ex.valuesEqual(x, y, xt)
	case token.NEQ:
		return Not(ex.valuesEqual(x, y, xt))
	}
	switch a := x.(type) {
	case *StrVal:
		b := y.(*StrVal)
		switch op {
		case token.ADD:
			nb := make([]*Term, 0, len(a.B)+len(b.B))
			nb = append(nb, a.B...)
			nb = append(nb, b.B...)
			return &StrVal{nb}
		case token.LSS, token.LEQ, token.GTR, token.GEQ:
			return ex.strCompare(op, a, b)
		}
	case *Term:
		b := y.(*Term)
		if a.FP {
			switch op {
			case token.ADD:
				return FBin(OFAdd, a, b)
			case token.SUB:
				return FBin(OFSub, a, b)
			case token.MUL:
				return FBin(OFMul, a, b)
			case token.QUO:
				return FBin(OFDiv, a, b)
			case token.LSS:
				return FBin(OFLt, a, b)
			case token.LEQ:
				return FBin(OFLe, a, b)
			case token.GTR:
				return FBin(OFLt, b, a)
			case token.GEQ:
				return FBin(OFLe, b, a)
			}
			ex.internal("float binop %v", op)
		}
		if a.W == 0 {
			switch op {
			case token.LAND, token.AND:
				return And(a, b)
			case token.LOR, token.OR:
				return Or(a, b)
			}
			ex.internal("bool binop %v", op)
		}
		signed := isSigned(xt)
		switch op {
		case token.ADD:
			return Bin(OAdd, a, b)
		case token.SUB:
			return Bin(OSub, a, b)
		case token.MUL:
			return Bin(OMul, a, b)
		case token.QUO, token.REM:
			if ex.Branch(Eq(b, BV(0, b.W))) {
				ex.goPanicf("integer divide by zero")
			}
			switch {
			case op == token.QUO && signed:
				return Bin(OSDiv, a, b)
			case op == token.QUO:
				return Bin(OUDiv, a, b)
			case signed:
				return Bin(OSRem, a, b)
			default:
				return Bin(OURem, a, b)
			}
		case token.AND:
			return Bin(OBAnd, a, b)
		case token.OR:
			return Bin(OBOr, a, b)
		case token.XOR:
			return Bin(OBXor, a, b)
		case token.AND_NOT:
			return Bin(OBAnd, a, BNot(b))
		case token.SHL, token.SHR:
			// shift count: unsigned of any width; widen/narrow to a.W with saturation
			cnt := b
			if isSigned(yt) {
				if ex.Branch(Cmp(OSLt, b, BV(0, b.W))) {
					ex.goPanicf("negative shift amount")
				}
			}
			if cnt.W > a.W {
				big := Cmp(OULe, BV(uint64(a.W), cnt.W), cnt)
				cnt = Ite(big, BV(uint64(a.W), a.W), Extract(cnt, a.W-1, 0))
			} else if cnt.W < a.W {
				cnt = ZExt(cnt, a.W)
			}
			switch {
			case op == token.SHL:
				return Bin(OShl, a, cnt)
			case signed:
				return Bin(OAShr, a, cnt)
			default:
				return Bin(OLShr, a, cnt)
			}
		case token.LSS:
			if signed {
				return Cmp(OSLt, a, b)
			}
			return Cmp(OULt, a, b)
		case token.LEQ:
			if signed {
				return Cmp(OSLe, a, b)
			}
			return Cmp(OULe, a, b)
		case token.GTR:
			if signed {
				return Cmp(OSLt, b, a)
			}
			return Cmp(OULt, b, a)
		case token.GEQ:
			if signed {
				return Cmp(OSLe, b, a)
			}
			return Cmp(OULe, b, a)
		}
	}
	ex.internal("unsupported binop %v on %T", op, x)
	return nil
}

func (ex *Exec) strCompare(op token.Token, a, b *StrVal) *Term {
	// lexicographic comparison as a term
	n := len(a.B)
	if len(b.B) < n {
		n = len(b.B)
	}
	// lt: exists i: prefix equal and a[i]<b[i], or all equal and len(a)<len(b)
	lt := Bool(len(a.B) < len(b.B))
	eq := Bool(len(a.B) == len(b.B))
	for i := n - 1; i >= 0; i-- {
		e := Eq(a.B[i], b.B[i])
		lt = Or(Cmp(OULt, a.B[i], b.B[i]), And(e, lt))
		eq = And(e, eq)
	}
	switch op {
	case token.LSS:
		return lt
	case token.LEQ:
		return Or(lt, eq)
	case token.GTR:
		return Not(Or(lt, eq))
	default:
		return Not(lt)
	}
}

func (ex *Exec) unop(fr *frame, in *ssa.UnOp) Value {
	x := ex.get(fr, in.X)
	switch in.Op {
	case token.MUL:
		if len(ex.guards) > 0 {
			ex.guardAccess(x.(Ptr), false)
		}
		return ex.load(x.(Ptr))
	case token.NOT:
		return Not(x.(*Term))
	case token.SUB:
		t := x.(*Term)
		if t.FP {
			return FNeg(t)
		}
		return Neg(t)
	case token.XOR:
		return BNot(x.(*Term))
	case token.ARROW:
		var v Value
		var ok bool
		if ex.curThread != nil {
			v, ok = ex.tRecv(x.(*ChanVal))
		} else {
			v, ok = ex.chanRecv(x.(*ChanVal))
		}
		if in.CommaOk {
			return Tuple{v, Bool(ok)}
		}
		return v
	}
	ex.internal("unsupported unop %v", in.Op)
	return nil
}

// indexIn resolves a (possibly symbolic) index against a concrete length,
// raising a Go panic on the out-of-range side if feasible.
func (ex *Exec) indexIn(idx *Term, n int) int {
	if idx.IsConst() {
		i := idx.SInt()
		if i < 0 || i >= int64(n) {
			ex.goPanicf("index out of range [%d] with length %d", i, n)
		}
		return int(i)
	}
	i64 := SExt(idx, 64)
	if idx.W < 64 {
		i64 = ZExt(idx, 64) // narrower index types in our code base are unsigned bytes
	}
	if ex.Branch(Cmp(OULe, BV(uint64(n), 64), i64)) {
		ex.goPanicf("index out of range [symbolic] with length %d", n)
	}
	return int(ex.Concretize(i64))
}

func (ex *Exec) strIndex(s *StrVal, idx *Term) Value {
	if idx.IsConst() {
		return s.B[ex.indexIn(idx, len(s.B))]
	}
	i64 := idx
	if ex.Branch(Cmp(OULe, BV(uint64(len(s.B)), 64), i64)) {
		ex.goPanicf("index out of range [symbolic] with length %d", len(s.B))
	}
	// ite chain
	r := s.B[len(s.B)-1]
	for i := len(s.B) - 2; i >= 0; i-- {
		r = Ite(Eq(i64, BV(uint64(i), 64)), s.B[i], r)
	}
	return r
}

func (ex *Exec) indexAddr(fr *frame, in *ssa.IndexAddr) Value {
	x := ex.get(fr, in.X)
	idx := ex.get(fr, in.Index).(*Term)
	switch xv := x.(type) {
	case SliceVal:
		i := ex.indexIn(idx, xv.Len)
		return xv.elemPtr(i)
	case Ptr:
		if xv.Obj == nil {
			ex.goPanicf("invalid memory address or nil pointer dereference")
		}
		n := int(deref(in.X.Type()).Underlying().(*types.Array).Len())
		i := ex.indexIn(idx, n)
		np := make([]int, len(xv.Path)+1)
		copy(np, xv.Path)
		np[len(xv.Path)] = i
		return Ptr{Obj: xv.Obj, Path: np}
	}
	ex.internal("IndexAddr on %T", x)
	return nil
}

func (ex *Exec) sliceOp(fr *frame, in *ssa.Slice) Value {
	x := ex.get(fr, in.X)
	bound := func(v ssa.Value, def int) int {
		if v == nil {
			return def
		}
		return int(ex.Concretize(ex.get(fr, v).(*Term)))
	}
	switch xv := x.(type) {
	case *StrVal:
		lo := bound(in.Low, 0)
		hi := bound(in.High, len(xv.B))
		if lo < 0 || hi < lo || hi > len(xv.B) {
			ex.goPanicf("slice bounds out of range [%d:%d] with length %d", lo, hi, len(xv.B))
		}
		return &StrVal{xv.B[lo:hi]}
	case SliceVal:
		lo := bound(in.Low, 0)
		hi := bound(in.High, xv.Len)
		mx := bound(in.Max, xv.Cap)
		if lo < 0 || hi < lo || mx < hi || mx > xv.Cap {
			ex.goPanicf("slice bounds out of range [%d:%d:%d] with capacity %d", lo, hi, mx, xv.Cap)
		}
		if xv.Arr == nil {
			return SliceVal{}
		}
		return SliceVal{Arr: xv.Arr, Off: xv.Off + lo, Len: hi - lo, Cap: mx - lo, Pre: xv.Pre}
	case Ptr:
		// pointer to array
		if xv.Obj == nil {
			ex.goPanicf("nil pointer dereference (slice of nil *array)")
		}
		n := int(deref(in.X.Type()).Underlying().(*types.Array).Len())
		lo := bound(in.Low, 0)
		hi := bound(in.High, n)
		mx := bound(in.Max, n)
		if lo < 0 || hi < lo || mx < hi || mx > n {
			ex.goPanicf("slice bounds out of range [%d:%d:%d] with capacity %d", lo, hi, mx, n)
		}
		// an array nested in a struct (or in another array) is addressed through the path prefix
		return SliceVal{Arr: xv.Obj, Off: lo, Len: hi - lo, Cap: mx - lo, Pre: append([]int{}, xv.Path...)}
	}
	ex.internal("Slice on %T", x)
	return nil
}

func (ex *Exec) convert(v Value, from, to types.Type) Value {
	fu, tu := from.Underlying(), to.Underlying()
	if fw, fs, ok := bvWidth(from); ok {
		t := v.(*Term)
		if tw, _, ok2 := bvWidth(to); ok2 {
			if tw <= fw {
				return Extract(t, tw-1, 0)
			}
			if fs {
				return SExt(t, tw)
			}
			return ZExt(t, tw)
		}
		if isFloat(to) {
			if !fs {
				if t.IsConst() {
					return F64(float64(t.Val))
				}
				if fw < 64 {
					return SToF(ZExt(t, 64))
				}
				ex.internal("uint64->float of symbolic value unsupported")
			}
			return SToF(SExt(t, 64))
		}
		if tb, ok := tu.(*types.Basic); ok && tb.Info()&types.IsString != 0 {
			if !t.IsConst() {
				ex.internal("string(rune) of symbolic value")
			}
			return MkStr(string(rune(t.SInt())))
		}
	}
	if isFloat(from) {
		t := v.(*Term)
		if isFloat(to) {
			return t
		}
		if tw, ts, ok := bvWidth(to); ok && ts && tw == 64 {
			return FToS(t)
		}
		if tw, _, ok := bvWidth(to); ok && t.IsConst() {
			return BV(uint64(int64(t.Float())), tw)
		}
	}
	if fb, ok := fu.(*types.Basic); ok && fb.Info()&types.IsString != 0 {
		s := v.(*StrVal)
		if ts, ok := tu.(*types.Slice); ok {
			if b, ok := ts.Elem().Underlying().(*types.Basic); ok && b.Kind() == types.Uint8 {
				return ex.bytesToSlice(s.B)
			}
		}
		if tb, ok := tu.(*types.Basic); ok && tb.Info()&types.IsString != 0 {
			return s
		}
	}
	if fs, ok := fu.(*types.Slice); ok {
		if tb, ok := tu.(*types.Basic); ok && tb.Info()&types.IsString != 0 {
			if b, ok := fs.Elem().Underlying().(*types.Basic); ok && b.Kind() == types.Uint8 {
				return ex.sliceToStr(v.(SliceVal))
			}
		}
	}
	if _, ok := fu.(*types.Pointer); ok {
		return v // pointer <-> unsafe.Pointer
	}
	if fb, ok := fu.(*types.Basic); ok && fb.Kind() == types.UnsafePointer {
		return v
	}
	ex.internal("unsupported conversion %s -> %s", from, to)
	return nil
}

func (ex *Exec) typeAssert(fr *frame, in *ssa.TypeAssert) Value {
	x := ex.get(fr, in.X).(IfaceVal)
	ok := false
	if x.T != nil {
		if it, isI := in.AssertedType.Underlying().(*types.Interface); isI {
			ok = types.Implements(x.T, it)
			if !ok {
				// method sets of pointer receivers
				ok = types.AssertableTo(it, x.T) && types.Implements(x.T, it)
			}
		} else {
			ok = types.Identical(x.T, in.AssertedType)
		}
	}
	var res Value
	if ok {
		if _, isI := in.AssertedType.Underlying().(*types.Interface); isI {
			res = x
		} else {
			res = x.V
		}
	} else {
		if !in.CommaOk {
			ex.goPanicf("interface conversion: interface is %v, not %v", x.T, in.AssertedType)
		}
		res = Zero(in.AssertedType)
	}
	if in.CommaOk {
		return Tuple{res, Bool(ok)}
	}
	return res
}
