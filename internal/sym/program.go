package sym

import (
	"fmt"
	"go/types"
	"os"
	"path/filepath"
	"sort"
	"strings"
	"sync"

	"golang.org/x/tools/go/packages"
	"golang.org/x/tools/go/ssa"
	"golang.org/x/tools/go/ssa/ssautil"
)

type nativeKey struct{ typ, method string }

type nativeFn func(ex *Exec, caller *frame, fn *ssa.Function, args []Value) Value

// Program is the loaded SSA program plus the state shared by all paths.
type Program struct {
	Prog     *ssa.Program
	Pkgs     []*ssa.Package
	RepoDir  string
	globals  map[*ssa.Global]*Object
	gmu      sync.Mutex
	initPhase bool

	intercepts    map[string]nativeFn
	nativeMethods map[nativeKey]func(ex *Exec, recv IfaceVal, args []Value) Value
	runtimeErrType types.Type
	storeHook     func(ex *Exec, p Ptr, v Value)
	goHook        func(ex *Exec, fr *frame, in *ssa.Go)
	Params        map[string]int
	InitSkipped   []string
	InitRun       []string
	initAllow     map[string]bool
	initSeen      map[string]bool
	repoPkg       map[string]bool
	InitPartial   []string
}

// Load loads the packages of the repository at dir (patterns relative to it),
// with the harness files overlaid into the package directories:
// overlay maps a virtual file path (inside dir) to the real file.
// LoadTolerant loads like Load but survives harness files that no longer type-check against
// the code under test (a change of representation the in-package harness relied on): overlay
// files in which the type checker reports errors are left out - and, repeatedly, those that
// depended on them - as long as every error lies in an overlay file that is not in keep.
// The virtual paths left out are returned; their harnesses are unavailable for this run.
func LoadTolerant(dir string, patterns []string, overlay map[string]string, keep func(virt string) bool) (*Program, []string, error) {
	cur := map[string]string{}
	for k, v := range overlay {
		cur[k] = v
	}
	var dropped []string
	for {
		p, err := Load(dir, patterns, cur)
		if err == nil {
			sort.Strings(dropped)
			return p, dropped, nil
		}
		le, ok := err.(*loadErrors)
		if !ok {
			return nil, dropped, err
		}
		bad := map[string]bool{}
		for _, pos := range le.files {
			if _, isOv := cur[pos]; !isOv || (keep != nil && keep(pos)) {
				return nil, dropped, err
			}
			bad[pos] = true
		}
		if len(bad) == 0 {
			return nil, dropped, err
		}
		for f := range bad {
			delete(cur, f)
			dropped = append(dropped, f)
		}
	}
}

type loadErrors struct {
	msgs  []string
	files []string // file of every error ("" when unknown)
}

func (e *loadErrors) Error() string { return "package load errors:\n" + strings.Join(e.msgs, "\n") }

func Load(dir string, patterns []string, overlay map[string]string) (*Program, error) {
	ov := map[string][]byte{}
	for virt, real := range overlay {
		b, err := os.ReadFile(real)
		if err != nil {
			return nil, err
		}
		ov[virt] = b
	}
	cfg := &packages.Config{
		Mode:    packages.LoadAllSyntax,
		Dir:     dir,
		Overlay: ov,
		Env:     append(os.Environ(), "GOFLAGS=-mod=mod", "GOPROXY=off", "GOSUMDB=off", "GOTOOLCHAIN=local"),
	}
	initial, err := packages.Load(cfg, patterns...)
	if err != nil {
		return nil, err
	}
	le := &loadErrors{}
	packages.Visit(initial, nil, func(p *packages.Package) {
		for _, e := range p.Errors {
			le.msgs = append(le.msgs, e.Error())
			f := e.Pos
			if i := strings.Index(f, ":"); i >= 0 {
				f = f[:i]
			}
			le.files = append(le.files, f)
		}
	})
	if len(le.msgs) > 0 {
		return nil, le
	}
	prog, pkgs := ssautil.AllPackages(initial, ssa.InstantiateGenerics)
	prog.Build()
	p := &Program{Prog: prog, Pkgs: pkgs, RepoDir: dir, globals: map[*ssa.Global]*Object{},
		intercepts: map[string]nativeFn{}, nativeMethods: map[nativeKey]func(*Exec, IfaceVal, []Value) Value{}}
	p.runtimeErrType = types.NewNamed(types.NewTypeName(0, nil, "runtime.Error", nil), types.Typ[types.String], nil)
	p.initAllow = map[string]bool{}
	for _, pk := range []string{"errors", "io", "bufio", "strconv", "context", "unicode/utf8", "strings", "bytes", "internal/bytealg", "unsafe", "net/http/internal/ascii", "net/textproto", "math", "math/bits", "internal/itoa", "io/fs", "internal/oserror", "sort", "slices", "internal/stringslite", "maps", "cmp", "iter", "database/sql/driver"} {
		p.initAllow[pk] = true
	}
	p.repoPkg = map[string]bool{}
	for _, pk := range pkgs {
		if pk != nil {
			p.initAllow[pk.Pkg.Path()] = true
			p.repoPkg[pk.Pkg.Path()] = true
		}
	}
	registerIntrinsics(p)
	registerStubs(p)
	return p, nil
}

func (p *Program) global(g *ssa.Global) *Object {
	p.gmu.Lock()
	defer p.gmu.Unlock()
	o, ok := p.globals[g]
	if !ok {
		t := deref(g.Type())
		o = &Object{ID: -len(p.globals) - 1, Val: Zero(t), Typ: t, Base: true, Note: g.String()}
		p.globals[g] = o
	}
	return o
}

// FindFunc finds a package-level function "name" or "pkgpath.name" or a
// method "(*T).name" in the loaded (initial) packages.
func (p *Program) FindFunc(name string) *ssa.Function {
	for _, pk := range p.Pkgs {
		if pk == nil {
			continue
		}
		if f := pk.Func(name); f != nil {
			return f
		}
	}
	for f := range ssautil.AllFunctions(p.Prog) {
		if f.String() == name {
			return f
		}
	}
	return nil
}

// RunInits executes the package initialisers of the loaded packages and of
// the allow-listed dependencies concretely, once. Everything allocated here is
// shared by all paths and treated copy-on-write.
func (p *Program) RunInits() error {
	p.initPhase = true
	defer func() { p.initPhase = false }()
	ex := &Exec{P: p, Opt: Options{MaxSteps: 50000000, MaxCallDepth: 200}}
	ex.shadow = map[*Object]Value{}
	ex.inputSeq = map[string]int{}
	ex.facts = map[uint64][]fact{}
	ex.mutexState = map[*Object]int{}
	ex.natState = map[string]interface{}{}
	var err error
	func() {
		defer func() {
			if r := recover(); r != nil {
				switch x := r.(type) {
				case *InternalError:
					err = fmt.Errorf("package initialisation: %s", x.Msg)
				case *goPanic:
					err = fmt.Errorf("package initialisation panicked: %s", x.Msg)
				default:
					panic(r)
				}
			}
		}()
		for _, pk := range p.Pkgs {
			if pk == nil {
				continue
			}
			if init := pk.Func("init"); init != nil {
				ex.callFunction(nil, init, nil, nil, nil)
			}
		}
	}()
	sort.Strings(p.InitRun)
	sort.Strings(p.InitSkipped)
	return err
}

// isPkgInit reports whether fn is a synthetic package initialiser.
func isPkgInit(fn *ssa.Function) bool {
	return fn.Name() == "init" && fn.Synthetic == "package initializer"
}

func (p *Program) allowInit(fn *ssa.Function) bool {
	path := fn.Pkg.Pkg.Path()
	if p.initSeen == nil {
		p.initSeen = map[string]bool{}
	}
	first := !p.initSeen[path]
	p.initSeen[path] = true
	if p.initAllow[path] {
		if first {
			p.InitRun = append(p.InitRun, path)
		}
		return true
	}
	if first {
		p.InitSkipped = append(p.InitSkipped, path)
	}
	return false
}

// HarnessOverlay builds the overlay map: every *.go file in harnessDir whose
// name starts with "sse_" goes into repo root, "parser_" into internal/parser.
func HarnessOverlay(repo, harnessDir string) (map[string]string, error) {
	ents, err := os.ReadDir(harnessDir)
	if err != nil {
		return nil, err
	}
	ov := map[string]string{}
	for _, e := range ents {
		n := e.Name()
		if !strings.HasSuffix(n, ".go") {
			continue
		}
		real := filepath.Join(harnessDir, n)
		switch {
		case strings.HasPrefix(n, "sse_"):
			ov[filepath.Join(repo, "zz_verif_"+strings.TrimPrefix(n, "sse_"))] = real
		case strings.HasPrefix(n, "parser_"):
			ov[filepath.Join(repo, "internal", "parser", "zz_verif_"+strings.TrimPrefix(n, "parser_"))] = real
		}
	}
	return ov, nil
}

// globalByName returns the cell of a package-level variable such as "io.EOF".
func (p *Program) globalByName(name string) *Object {
	for _, pk := range p.Prog.AllPackages() {
		for _, m := range pk.Members {
			if g, ok := m.(*ssa.Global); ok && g.String() == name {
				return p.global(g)
			}
		}
	}
	return nil
}
