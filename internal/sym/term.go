// Package sym is a path-forking symbolic executor for sequential Go SSA.
// term.go: SMT term DAG with constant folding. Bit-vectors up to 64 bits,
// Booleans and IEEE double (Float64) terms.
package sym

import (
	"fmt"
	"math"
	"math/bits"
	"strings"
)

type Op uint8

const (
	OConst Op = iota
	OVar
	ONot
	OAnd
	OOr
	OEq
	OIte
	OAdd
	OSub
	OMul
	OUDiv
	OURem
	OSDiv
	OSRem
	OBAnd
	OBOr
	OBXor
	OShl
	OLShr
	OAShr
	OULt
	OULe
	OSLt
	OSLe
	ONeg
	OBNot
	OExtract // Hi, Lo
	OZExt    // to W
	OSExt    // to W
	// floating point (Float64 only)
	OFLt
	OFLe
	OFEq
	OFAdd
	OFSub
	OFMul
	OFDiv
	OFNeg
	OSToF  // signed bv64 -> f64 (RNE)
	OFToS  // f64 -> signed bv64 (RTZ)
	OFBits // reinterpret bv64 as f64
)

var opName = map[Op]string{
	ONot: "not", OAnd: "and", OOr: "or", OEq: "=", OIte: "ite", OAdd: "bvadd", OSub: "bvsub", OMul: "bvmul",
	OUDiv: "bvudiv", OURem: "bvurem", OSDiv: "bvsdiv", OSRem: "bvsrem", OBAnd: "bvand", OBOr: "bvor", OBXor: "bvxor",
	OShl: "bvshl", OLShr: "bvlshr", OAShr: "bvashr", OULt: "bvult", OULe: "bvule", OSLt: "bvslt", OSLe: "bvsle",
	ONeg: "bvneg", OBNot: "bvnot",
	OFLt: "fp.lt", OFLe: "fp.leq", OFEq: "fp.eq", OFNeg: "fp.neg",
}

// Term is an immutable SMT term. W == 0 means Bool; FP means Float64 (W = 64).
type Term struct {
	Op     Op
	W      int
	FP     bool
	Val    uint64
	Name   string
	Hi, Lo int
	Args   []*Term
	h      uint64
}

var (
	True  = &Term{Op: OConst, W: 0, Val: 1}
	False = &Term{Op: OConst, W: 0, Val: 0}
)

func mask(w int) uint64 {
	if w >= 64 {
		return ^uint64(0)
	}
	return (uint64(1) << uint(w)) - 1
}

func BV(v uint64, w int) *Term { return &Term{Op: OConst, W: w, Val: v & mask(w)} }
func Bool(b bool) *Term {
	if b {
		return True
	}
	return False
}
func F64(f float64) *Term           { return &Term{Op: OConst, W: 64, FP: true, Val: math.Float64bits(f)} }
func Var(name string, w int) *Term  { return &Term{Op: OVar, W: w, Name: name} }
func FVar(name string) *Term        { return &Term{Op: OVar, W: 64, FP: true, Name: name} }
func (t *Term) IsConst() bool       { return t.Op == OConst }
func (t *Term) IsBool() bool        { return t.W == 0 }
func (t *Term) IsTrue() bool        { return t.Op == OConst && t.W == 0 && t.Val == 1 }
func (t *Term) IsFalse() bool       { return t.Op == OConst && t.W == 0 && t.Val == 0 }
func (t *Term) Float() float64      { return math.Float64frombits(t.Val) }
func (t *Term) SInt() int64         { return signExt(t.Val, t.W) }
func signExt(v uint64, w int) int64 {
	if w >= 64 {
		return int64(v)
	}
	if v&(1<<uint(w-1)) != 0 {
		return int64(v | ^mask(w))
	}
	return int64(v)
}

func Not(a *Term) *Term {
	if a.IsConst() {
		return Bool(a.Val == 0)
	}
	if a.Op == ONot {
		return a.Args[0]
	}
	return &Term{Op: ONot, Args: []*Term{a}}
}

func And(a, b *Term) *Term {
	if a.IsConst() {
		if a.Val == 0 {
			return False
		}
		return b
	}
	if b.IsConst() {
		if b.Val == 0 {
			return False
		}
		return a
	}
	if a == b {
		return a
	}
	return &Term{Op: OAnd, Args: []*Term{a, b}}
}

func Or(a, b *Term) *Term {
	if a.IsConst() {
		if a.Val == 1 {
			return True
		}
		return b
	}
	if b.IsConst() {
		if b.Val == 1 {
			return True
		}
		return a
	}
	if a == b {
		return a
	}
	return &Term{Op: OOr, Args: []*Term{a, b}}
}

func Eq(a, b *Term) *Term {
	if a == b && !a.FP {
		return True
	}
	if a.FP != b.FP || a.W != b.W {
		panic(fmt.Sprintf("Eq sort mismatch %v %v", a, b))
	}
	if a.FP {
		return fbin(OFEq, a, b)
	}
	if a.IsConst() && b.IsConst() {
		return Bool(a.Val == b.Val)
	}
	if a.W == 0 {
		if a.IsConst() {
			if a.Val == 1 {
				return b
			}
			return Not(b)
		}
		if b.IsConst() {
			if b.Val == 1 {
				return a
			}
			return Not(a)
		}
	}
	// zext(x) == const that does not fit -> false; zext(x)==c -> x==c
	if b.IsConst() && a.Op == OZExt {
		in := a.Args[0]
		if b.Val > mask(in.W) {
			return False
		}
		return Eq(in, BV(b.Val, in.W))
	}
	if a.IsConst() && b.Op == OZExt {
		return Eq(b, a)
	}
	if b.IsConst() && a.Op == OIte && a.Args[1].IsConst() && a.Args[2].IsConst() {
		// ite(c,k1,k2) == k
		t1 := a.Args[1].Val == b.Val
		t2 := a.Args[2].Val == b.Val
		switch {
		case t1 && t2:
			return True
		case t1:
			return a.Args[0]
		case t2:
			return Not(a.Args[0])
		default:
			return False
		}
	}
	return &Term{Op: OEq, Args: []*Term{a, b}}
}

func Ite(c, a, b *Term) *Term {
	if c.IsConst() {
		if c.Val == 1 {
			return a
		}
		return b
	}
	if a == b {
		return a
	}
	if a.IsConst() && b.IsConst() && a.W == b.W && a.Val == b.Val && a.FP == b.FP {
		return a
	}
	if a.W == 0 && !a.FP {
		if a.IsConst() && b.IsConst() {
			if a.Val == 1 {
				return c
			}
			return Not(c)
		}
		return Or(And(c, a), And(Not(c), b))
	}
	return &Term{Op: OIte, W: a.W, FP: a.FP, Args: []*Term{c, a, b}}
}

func foldBin(op Op, x, y uint64, w int) (uint64, bool) {
	m := mask(w)
	sx, sy := signExt(x, w), signExt(y, w)
	switch op {
	case OAdd:
		return (x + y) & m, true
	case OSub:
		return (x - y) & m, true
	case OMul:
		return (x * y) & m, true
	case OUDiv:
		if y == 0 {
			return m, true
		}
		return x / y, true
	case OURem:
		if y == 0 {
			return x, true
		}
		return x % y, true
	case OSDiv:
		if y == 0 {
			if sx < 0 {
				return 1, true
			}
			return m, true
		}
		if sy == -1 {
			return uint64(-sx) & m, true
		}
		return uint64(sx/sy) & m, true
	case OSRem:
		if y == 0 {
			return x, true
		}
		if sy == -1 {
			return 0, true
		}
		return uint64(sx%sy) & m, true
	case OBAnd:
		return x & y, true
	case OBOr:
		return x | y, true
	case OBXor:
		return x ^ y, true
	case OShl:
		if y >= uint64(w) {
			return 0, true
		}
		return (x << y) & m, true
	case OLShr:
		if y >= uint64(w) {
			return 0, true
		}
		return x >> y, true
	case OAShr:
		if y >= uint64(w) {
			if sx < 0 {
				return m, true
			}
			return 0, true
		}
		return uint64(sx>>y) & m, true
	}
	return 0, false
}

func foldCmp(op Op, x, y uint64, w int) bool {
	switch op {
	case OULt:
		return x < y
	case OULe:
		return x <= y
	case OSLt:
		return signExt(x, w) < signExt(y, w)
	case OSLe:
		return signExt(x, w) <= signExt(y, w)
	}
	panic("cmp")
}

func Bin(op Op, a, b *Term) *Term {
	if a.W != b.W || a.W == 0 || a.FP || b.FP {
		panic(fmt.Sprintf("Bin %v sort mismatch: %s / %s", opName[op], a, b))
	}
	if a.IsConst() && b.IsConst() {
		v, _ := foldBin(op, a.Val, b.Val, a.W)
		return BV(v, a.W)
	}
	switch op {
	case OAdd:
		if a.IsConst() && a.Val == 0 {
			return b
		}
		if b.IsConst() && b.Val == 0 {
			return a
		}
		// (x + c1) + c2
		if b.IsConst() && a.Op == OAdd && a.Args[1].IsConst() {
			return Bin(OAdd, a.Args[0], BV(a.Args[1].Val+b.Val, a.W))
		}
	case OSub:
		if b.IsConst() && b.Val == 0 {
			return a
		}
		if a == b {
			return BV(0, a.W)
		}
		if b.IsConst() {
			return Bin(OAdd, a, BV(-b.Val, a.W))
		}
	case OMul:
		if a.IsConst() && a.Val == 1 {
			return b
		}
		if b.IsConst() && b.Val == 1 {
			return a
		}
		if (a.IsConst() && a.Val == 0) || (b.IsConst() && b.Val == 0) {
			return BV(0, a.W)
		}
	case OBAnd:
		if (a.IsConst() && a.Val == 0) || (b.IsConst() && b.Val == 0) {
			return BV(0, a.W)
		}
		if a.IsConst() && a.Val == mask(a.W) {
			return b
		}
		if b.IsConst() && b.Val == mask(a.W) {
			return a
		}
	case OBOr, OBXor:
		if a.IsConst() && a.Val == 0 {
			return b
		}
		if b.IsConst() && b.Val == 0 {
			return a
		}
	case OShl, OLShr, OAShr:
		if b.IsConst() && b.Val == 0 {
			return a
		}
	}
	return &Term{Op: op, W: a.W, Args: []*Term{a, b}}
}

func Cmp(op Op, a, b *Term) *Term {
	if a.W != b.W || a.W == 0 {
		panic(fmt.Sprintf("Cmp sort mismatch %s / %s", a, b))
	}
	if a.IsConst() && b.IsConst() {
		return Bool(foldCmp(op, a.Val, b.Val, a.W))
	}
	if a == b {
		return Bool(op == OULe || op == OSLe)
	}
	// comparisons of zero-extended narrow values against constants
	if a.Op == OZExt && b.IsConst() && (op == OULt || op == OULe || ((op == OSLt || op == OSLe) && a.W > a.Args[0].W)) {
		in := a.Args[0]
		sb := signExt(b.Val, b.W)
		if op == OSLt || op == OSLe {
			if sb < 0 {
				return False
			}
		}
		if b.Val > mask(in.W) {
			return True
		}
		uop := OULt
		if op == OULe || op == OSLe {
			uop = OULe
		}
		return Cmp(uop, in, BV(b.Val, in.W))
	}
	return &Term{Op: op, Args: []*Term{a, b}}
}

func Neg(a *Term) *Term {
	if a.IsConst() {
		return BV(-a.Val, a.W)
	}
	return &Term{Op: ONeg, W: a.W, Args: []*Term{a}}
}

func BNot(a *Term) *Term {
	if a.IsConst() {
		return BV(^a.Val, a.W)
	}
	return &Term{Op: OBNot, W: a.W, Args: []*Term{a}}
}

func Extract(a *Term, hi, lo int) *Term {
	w := hi - lo + 1
	if lo == 0 && w == a.W {
		return a
	}
	if a.IsConst() {
		return BV(a.Val>>uint(lo), w)
	}
	if lo == 0 && (a.Op == OZExt || a.Op == OSExt) {
		in := a.Args[0]
		if in.W == w {
			return in
		}
		if in.W > w {
			return Extract(in, hi, 0)
		}
		if a.Op == OZExt {
			return ZExt(in, w)
		}
		return SExt(in, w)
	}
	return &Term{Op: OExtract, W: w, Hi: hi, Lo: lo, Args: []*Term{a}}
}

func ZExt(a *Term, w int) *Term {
	if a.W == w {
		return a
	}
	if a.W > w {
		return Extract(a, w-1, 0)
	}
	if a.IsConst() {
		return BV(a.Val, w)
	}
	if a.Op == OZExt {
		return ZExt(a.Args[0], w)
	}
	return &Term{Op: OZExt, W: w, Args: []*Term{a}}
}

func SExt(a *Term, w int) *Term {
	if a.W == w {
		return a
	}
	if a.W > w {
		return Extract(a, w-1, 0)
	}
	if a.IsConst() {
		return BV(uint64(signExt(a.Val, a.W)), w)
	}
	if a.Op == OZExt {
		return ZExt(a.Args[0], w)
	}
	return &Term{Op: OSExt, W: w, Args: []*Term{a}}
}

func fbin(op Op, a, b *Term) *Term {
	if a.IsConst() && b.IsConst() {
		x, y := a.Float(), b.Float()
		switch op {
		case OFLt:
			return Bool(x < y)
		case OFLe:
			return Bool(x <= y)
		case OFEq:
			return Bool(x == y)
		case OFAdd:
			return F64(x + y)
		case OFSub:
			return F64(x - y)
		case OFMul:
			return F64(x * y)
		case OFDiv:
			return F64(x / y)
		}
	}
	t := &Term{Op: op, Args: []*Term{a, b}}
	if op >= OFAdd && op <= OFDiv {
		t.W, t.FP = 64, true
	}
	return t
}

func FBin(op Op, a, b *Term) *Term { return fbin(op, a, b) }
func FNeg(a *Term) *Term {
	if a.IsConst() {
		return F64(-a.Float())
	}
	return &Term{Op: OFNeg, W: 64, FP: true, Args: []*Term{a}}
}
func SToF(a *Term) *Term {
	if a.IsConst() {
		return F64(float64(a.SInt()))
	}
	return &Term{Op: OSToF, W: 64, FP: true, Args: []*Term{a}}
}
func FToS(a *Term) *Term {
	if a.IsConst() {
		f := a.Float()
		if f == f && f > -9.3e18 && f < 9.3e18 {
			return BV(uint64(int64(f)), 64)
		}
	}
	return &Term{Op: OFToS, W: 64, Args: []*Term{a}}
}

func (t *Term) String() string {
	var sb strings.Builder
	t.write(&sb, nil)
	s := sb.String()
	if len(s) > 300 {
		s = s[:300] + "..."
	}
	return s
}

func bvLit(v uint64, w int) string {
	if w%4 == 0 {
		return fmt.Sprintf("#x%0*x", w/4, v)
	}
	return fmt.Sprintf("#b%0*b", w, v)
}

// write emits SMT-LIB2. names maps shared sub-terms to let-bound/defined names.
func (t *Term) write(sb *strings.Builder, names map[*Term]string) {
	if n, ok := names[t]; ok {
		sb.WriteString(n)
		return
	}
	switch t.Op {
	case OConst:
		switch {
		case t.FP:
			fmt.Fprintf(sb, "((_ to_fp 11 53) %s)", bvLit(t.Val, 64))
		case t.W == 0:
			if t.Val == 1 {
				sb.WriteString("true")
			} else {
				sb.WriteString("false")
			}
		default:
			sb.WriteString(bvLit(t.Val, t.W))
		}
	case OVar:
		sb.WriteString(t.Name)
	case OExtract:
		fmt.Fprintf(sb, "((_ extract %d %d) ", t.Hi, t.Lo)
		t.Args[0].write(sb, names)
		sb.WriteString(")")
	case OZExt:
		fmt.Fprintf(sb, "((_ zero_extend %d) ", t.W-t.Args[0].W)
		t.Args[0].write(sb, names)
		sb.WriteString(")")
	case OSExt:
		fmt.Fprintf(sb, "((_ sign_extend %d) ", t.W-t.Args[0].W)
		t.Args[0].write(sb, names)
		sb.WriteString(")")
	case OFAdd, OFSub, OFMul, OFDiv:
		n := map[Op]string{OFAdd: "fp.add", OFSub: "fp.sub", OFMul: "fp.mul", OFDiv: "fp.div"}[t.Op]
		fmt.Fprintf(sb, "(%s RNE ", n)
		t.Args[0].write(sb, names)
		sb.WriteString(" ")
		t.Args[1].write(sb, names)
		sb.WriteString(")")
	case OSToF:
		sb.WriteString("((_ to_fp 11 53) RNE ")
		t.Args[0].write(sb, names)
		sb.WriteString(")")
	case OFToS:
		sb.WriteString("((_ fp.to_sbv 64) RTZ ")
		t.Args[0].write(sb, names)
		sb.WriteString(")")
	case OFBits:
		sb.WriteString("((_ to_fp 11 53) ")
		t.Args[0].write(sb, names)
		sb.WriteString(")")
	default:
		sb.WriteString("(")
		sb.WriteString(opName[t.Op])
		for _, a := range t.Args {
			sb.WriteString(" ")
			a.write(sb, names)
		}
		sb.WriteString(")")
	}
}

// Eval evaluates a term under a model (variable name -> value). Missing
// variables evaluate to 0. FP terms are evaluated with Go float64 arithmetic.
func Eval(t *Term, m map[string]uint64, memo map[*Term]uint64) uint64 {
	if t.Op == OConst {
		return t.Val
	}
	if v, ok := memo[t]; ok {
		return v
	}
	var r uint64
	a := func(i int) uint64 { return Eval(t.Args[i], m, memo) }
	b2u := func(b bool) uint64 {
		if b {
			return 1
		}
		return 0
	}
	switch t.Op {
	case OVar:
		r = m[t.Name] & maskOrAll(t)
	case ONot:
		r = 1 - a(0)
	case OAnd:
		r = a(0) & a(1)
	case OOr:
		r = a(0) | a(1)
	case OEq:
		r = b2u(a(0) == a(1))
	case OIte:
		if a(0) == 1 {
			r = a(1)
		} else {
			r = a(2)
		}
	case OULt, OULe, OSLt, OSLe:
		r = b2u(foldCmp(t.Op, a(0), a(1), t.Args[0].W))
	case ONeg:
		r = (-a(0)) & mask(t.W)
	case OBNot:
		r = (^a(0)) & mask(t.W)
	case OExtract:
		r = (a(0) >> uint(t.Lo)) & mask(t.W)
	case OZExt:
		r = a(0)
	case OSExt:
		r = uint64(signExt(a(0), t.Args[0].W)) & mask(t.W)
	case OFLt:
		r = b2u(math.Float64frombits(a(0)) < math.Float64frombits(a(1)))
	case OFLe:
		r = b2u(math.Float64frombits(a(0)) <= math.Float64frombits(a(1)))
	case OFEq:
		r = b2u(math.Float64frombits(a(0)) == math.Float64frombits(a(1)))
	case OFAdd:
		r = math.Float64bits(math.Float64frombits(a(0)) + math.Float64frombits(a(1)))
	case OFSub:
		r = math.Float64bits(math.Float64frombits(a(0)) - math.Float64frombits(a(1)))
	case OFMul:
		r = math.Float64bits(math.Float64frombits(a(0)) * math.Float64frombits(a(1)))
	case OFDiv:
		r = math.Float64bits(math.Float64frombits(a(0)) / math.Float64frombits(a(1)))
	case OFNeg:
		r = math.Float64bits(-math.Float64frombits(a(0)))
	case OSToF:
		r = math.Float64bits(float64(int64(a(0))))
	case OFToS:
		r = uint64(int64(math.Float64frombits(a(0))))
	case OFBits:
		r = a(0)
	default:
		v, ok := foldBin(t.Op, a(0), a(1), t.W)
		if !ok {
			panic("eval: op " + fmt.Sprint(t.Op))
		}
		r = v
	}
	memo[t] = r
	return r
}

func maskOrAll(t *Term) uint64 {
	if t.W == 0 {
		return 1
	}
	return mask(t.W)
}

var _ = bits.Len
