package sym

import (
	"fmt"
	"go/types"
	"strings"

	"golang.org/x/tools/go/ssa"
)

// Value is a run-time value of the symbolic executor:
//
//	*Term      scalar (bool, integers as bit-vectors, float64)
//	*StrVal    string: concrete length, symbolic bytes
//	SliceVal   slice header over a backing *Object holding *ArrayVal
//	Ptr        pointer: object + path (nil object = nil pointer)
//	*StructVal struct (immutable; updates copy)
//	*ArrayVal  array (immutable; updates copy)
//	IfaceVal   interface: dynamic type + value
//	*Closure   function value
//	*MapVal    map (reference)
//	*ChanVal   channel (reference)
//	Tuple      multiple results
//	nil        "no value" (zero func/map/chan are typed wrappers below)
type Value interface{}

type StrVal struct{ B []*Term }

type Object struct {
	ID   int
	Val  Value
	Typ  types.Type
	Base bool // allocated during package initialisation (shared, copy-on-write per run)
	Note string
}

type SliceVal struct {
	Arr           *Object // nil for nil slice
	Off, Len, Cap int
	// Pre is the path from Arr's value to the array (empty when Arr is the array itself;
	// non-empty for a slice of an array that is a field of a struct)
	Pre []int
}

// elemPtr is the address of element i of the slice.
func (s SliceVal) elemPtr(i int) Ptr {
	p := make([]int, 0, len(s.Pre)+1)
	p = append(append(p, s.Pre...), s.Off+i)
	return Ptr{Obj: s.Arr, Path: p}
}

type Ptr struct {
	Obj  *Object
	Path []int
	// Fn is set for pointers that only serve as identity tokens of opaque stubs
	Tag string
}

type StructVal struct{ F []Value }
type ArrayVal struct{ E []Value }

type IfaceVal struct {
	T types.Type // nil => nil interface
	V Value
}

type Closure struct {
	Fn   *ssa.Function
	Bind []Value
	// Native is set for executor-provided function values.
	Native func(ex *Exec, args []Value) Value
	Name   string
}

type mapEntry struct {
	K, V Value
}

type MapVal struct {
	ID      int
	Entries []mapEntry
	Nil     bool
	Base    bool
}

type ChanVal struct {
	ID     int
	Cap    int
	Buf    []Value
	Closed bool
	Base   bool
	Elem   types.Type
	// Ready marks an environment channel whose readiness is decided by the harness.
	Note string
}

type Tuple []Value

func MkStr(s string) *StrVal {
	b := make([]*Term, len(s))
	for i := 0; i < len(s); i++ {
		b[i] = BV(uint64(s[i]), 8)
	}
	return &StrVal{b}
}

// Concrete returns the Go string if all bytes are constants.
func (s *StrVal) Concrete() (string, bool) {
	var sb strings.Builder
	for _, b := range s.B {
		if !b.IsConst() {
			return "", false
		}
		sb.WriteByte(byte(b.Val))
	}
	return sb.String(), true
}

func (s *StrVal) String() string {
	var sb strings.Builder
	sb.WriteByte('"')
	for _, b := range s.B {
		if b.IsConst() {
			c := byte(b.Val)
			if c >= 32 && c < 127 && c != '"' && c != '\\' {
				sb.WriteByte(c)
			} else {
				fmt.Fprintf(&sb, "\\x%02x", c)
			}
		} else {
			sb.WriteString("?")
		}
	}
	sb.WriteByte('"')
	return sb.String()
}

func StrEq(a, b *StrVal) *Term {
	if len(a.B) != len(b.B) {
		return False
	}
	r := True
	for i := range a.B {
		r = And(r, Eq(a.B[i], b.B[i]))
		if r.IsFalse() {
			return False
		}
	}
	return r
}

func deref(t types.Type) types.Type {
	if p, ok := t.Underlying().(*types.Pointer); ok {
		return p.Elem()
	}
	panic(&InternalError{Msg: "deref of non-pointer " + t.String()})
}

func bvWidth(t types.Type) (w int, signed bool, ok bool) {
	b, isb := t.Underlying().(*types.Basic)
	if !isb {
		return 0, false, false
	}
	switch b.Kind() {
	case types.Int8:
		return 8, true, true
	case types.Int16:
		return 16, true, true
	case types.Int32, types.UntypedRune:
		return 32, true, true
	case types.Int, types.Int64, types.UntypedInt:
		return 64, true, true
	case types.Uint8:
		return 8, false, true
	case types.Uint16:
		return 16, false, true
	case types.Uint32:
		return 32, false, true
	case types.Uint, types.Uint64, types.Uintptr:
		return 64, false, true
	}
	return 0, false, false
}

// Zero returns the zero value of a type.
func Zero(t types.Type) Value {
	switch u := t.Underlying().(type) {
	case *types.Basic:
		if w, _, ok := bvWidth(t); ok {
			return BV(0, w)
		}
		switch u.Kind() {
		case types.Bool, types.UntypedBool:
			return False
		case types.String, types.UntypedString:
			return &StrVal{}
		case types.Float64, types.Float32, types.UntypedFloat:
			return F64(0)
		case types.UnsafePointer:
			return Ptr{}
		case types.UntypedNil, types.Invalid:
			return nil
		}
		panic(&InternalError{Msg: "zero of basic " + t.String()})
	case *types.Pointer:
		return Ptr{}
	case *types.Slice:
		return SliceVal{}
	case *types.Struct:
		f := make([]Value, u.NumFields())
		for i := range f {
			f[i] = Zero(u.Field(i).Type())
		}
		return &StructVal{f}
	case *types.Array:
		e := make([]Value, u.Len())
		if u.Len() > 0 {
			z := Zero(u.Elem())
			for i := range e {
				e[i] = z
			}
		}
		return &ArrayVal{e}
	case *types.Interface:
		return IfaceVal{}
	case *types.Signature:
		return (*Closure)(nil)
	case *types.Map:
		return (*MapVal)(nil)
	case *types.Chan:
		return (*ChanVal)(nil)
	case *types.Tuple:
		tu := make(Tuple, u.Len())
		for i := range tu {
			tu[i] = Zero(u.At(i).Type())
		}
		return tu
	}
	panic(&InternalError{Msg: "zero of " + t.String()})
}

func showValue(v Value) string {
	switch x := v.(type) {
	case nil:
		return "nil"
	case *Term:
		return x.String()
	case *StrVal:
		return x.String()
	case SliceVal:
		if x.Arr == nil {
			return "[]nil"
		}
		return fmt.Sprintf("slice(obj%d,%d,%d,%d)", x.Arr.ID, x.Off, x.Len, x.Cap)
	case Ptr:
		if x.Obj == nil {
			return "nilptr" + x.Tag
		}
		return fmt.Sprintf("&obj%d%v", x.Obj.ID, x.Path)
	case *StructVal:
		var parts []string
		for _, f := range x.F {
			parts = append(parts, showValue(f))
		}
		return "{" + strings.Join(parts, ",") + "}"
	case *ArrayVal:
		return fmt.Sprintf("array[%d]", len(x.E))
	case IfaceVal:
		if x.T == nil {
			return "iface(nil)"
		}
		return "iface(" + x.T.String() + ":" + showValue(x.V) + ")"
	case *Closure:
		if x == nil {
			return "func(nil)"
		}
		if x.Fn != nil {
			return "func " + x.Fn.String()
		}
		return "func native " + x.Name
	case *MapVal:
		return "map"
	case *ChanVal:
		return "chan"
	case Tuple:
		var parts []string
		for _, f := range x {
			parts = append(parts, showValue(f))
		}
		return "(" + strings.Join(parts, ",") + ")"
	}
	return fmt.Sprintf("%T", v)
}
