package sym

import (
	"fmt"
	"go/types"
	"strings"

	"golang.org/x/tools/go/ssa"
)

func concStr(ex *Exec, v Value) string {
	s, ok := v.(*StrVal).Concrete()
	if !ok {
		ex.internal("intrinsic tag/label must be a constant string")
	}
	return s
}

func concInt(ex *Exec, v Value) int {
	t := v.(*Term)
	if !t.IsConst() {
		ex.internal("intrinsic bound must be a constant")
	}
	return int(t.SInt())
}

func (ex *Exec) recNondet(tag, kind string, w int, vars ...*Term) {
	names := make([]string, len(vars))
	for i, v := range vars {
		names[i] = v.Name
	}
	ord := 0
	for _, r := range ex.nondets {
		if r.Tag == tag {
			ord++
		}
	}
	ex.nondets = append(ex.nondets, NondetRec{Tag: tag, Ord: ord, Kind: kind, Vars: names, Len: w})
}

func (ex *Exec) nondetBytes(tag string, n int) []*Term {
	b := make([]*Term, n)
	for i := range b {
		b[i] = ex.freshVar(tag, 8)
	}
	ex.recNondet(tag, "bytes", 8, b...)
	return b
}

func registerIntrinsics(p *Program) {
	reg := func(name string, f func(ex *Exec, args []Value) Value) {
		nf := func(ex *Exec, caller *frame, fn *ssa.Function, args []Value) Value { return f(ex, args) }
		for _, pk := range p.Pkgs {
			if pk == nil {
				continue
			}
			p.intercepts[pk.Pkg.Path()+"."+name] = nf
		}
	}
	reg("verifNondetBool", func(ex *Exec, a []Value) Value {
		tag := concStr(ex, a[0])
		v := ex.freshVar(tag, 0)
		ex.recNondet(tag, "bool", 0, v)
		return v
	})
	reg("verifNondetByte", func(ex *Exec, a []Value) Value {
		tag := concStr(ex, a[0])
		v := ex.freshVar(tag, 8)
		ex.recNondet(tag, "int", 8, v)
		return v
	})
	reg("verifNondetInt", func(ex *Exec, a []Value) Value {
		tag := concStr(ex, a[0])
		lo, hi := a[1].(*Term), a[2].(*Term)
		v := ex.freshVar(tag, 64)
		ex.recNondet(tag, "int", 64, v)
		ex.Assume(And(Cmp(OSLe, lo, v), Cmp(OSLe, v, hi)))
		return v
	})
	reg("verifNondetInt64", func(ex *Exec, a []Value) Value {
		tag := concStr(ex, a[0])
		v := ex.freshVar(tag, 64)
		ex.recNondet(tag, "int", 64, v)
		return v
	})
	reg("verifNondetFloat", func(ex *Exec, a []Value) Value {
		tag := concStr(ex, a[0])
		v := ex.freshFloat(tag)
		ex.recNondet(tag, "float", 64, v)
		return v
	})
	reg("verifNondetBytes", func(ex *Exec, a []Value) Value {
		tag := concStr(ex, a[0])
		n := ex.Choose(tag+".len", concInt(ex, a[1])+1)
		return ex.bytesToSlice(ex.nondetBytes(tag, n))
	})
	reg("verifNondetString", func(ex *Exec, a []Value) Value {
		tag := concStr(ex, a[0])
		n := ex.Choose(tag+".len", concInt(ex, a[1])+1)
		return &StrVal{ex.nondetBytes(tag, n)}
	})
	reg("verifNondetStringN", func(ex *Exec, a []Value) Value {
		tag := concStr(ex, a[0])
		return &StrVal{ex.nondetBytes(tag, concInt(ex, a[1]))}
	})
	reg("verifNondetBytesN", func(ex *Exec, a []Value) Value {
		tag := concStr(ex, a[0])
		return ex.bytesToSlice(ex.nondetBytes(tag, concInt(ex, a[1])))
	})
	reg("verifChoose", func(ex *Exec, a []Value) Value {
		tag := concStr(ex, a[0])
		n := concInt(ex, a[1])
		k := ex.Choose(tag, n)
		ord := 0
		for _, r := range ex.nondets {
			if r.Tag == tag {
				ord++
			}
		}
		ex.nondets = append(ex.nondets, NondetRec{Tag: tag, Ord: ord, Kind: "choose", Conc: int64(k)})
		return BV(uint64(k), 64)
	})
	reg("verifConcretize", func(ex *Exec, a []Value) Value {
		return BV(uint64(ex.Concretize(a[0].(*Term))), 64)
	})
	reg("verifAssume", func(ex *Exec, a []Value) Value {
		ex.Assume(a[0].(*Term))
		return nil
	})
	reg("verifAssert", func(ex *Exec, a []Value) Value {
		ex.Assert(a[0].(*Term), concStr(ex, a[1]))
		return nil
	})
	reg("verifCover", func(ex *Exec, a []Value) Value {
		ex.covers[concStr(ex, a[0])]++
		return nil
	})
	reg("verifKnown", func(ex *Exec, a []Value) Value {
		name := concStr(ex, a[0])
		if old, ok := ex.known[name]; ok {
			ex.known[name] = Or(old, a[1].(*Term))
		} else {
			ex.known[name] = a[1].(*Term)
		}
		return nil
	})
	reg("verifObserve", func(ex *Exec, a []Value) Value {
		label := concStr(ex, a[0])
		var parts []string
		for _, v := range ex.sliceElems(a[1].(SliceVal)) {
			iv := v.(IfaceVal)
			parts = append(parts, showValue(iv.V))
		}
		if len(ex.observes) < 40 {
			ex.observes = append(ex.observes, label+": "+strings.Join(parts, " "))
		}
		return nil
	})
	reg("verifOr", func(ex *Exec, a []Value) Value { return Or(a[0].(*Term), a[1].(*Term)) })
	reg("verifAnd", func(ex *Exec, a []Value) Value { return And(a[0].(*Term), a[1].(*Term)) })
	reg("verifIteInt", func(ex *Exec, a []Value) Value { return Ite(a[0].(*Term), a[1].(*Term), a[2].(*Term)) })
	reg("verifParam", func(ex *Exec, a []Value) Value {
		name := concStr(ex, a[0])
		if v, ok := ex.params()[name]; ok {
			return BV(uint64(int64(v)), 64)
		}
		return a[1]
	})
	reg("verifJSONDoc", func(ex *Exec, a []Value) Value {
		doc := ex.bytesToSlice([]*Term{BV('"', 8), BV('?', 8), BV('"', 8)})
		ex.natState["jsondoc"] = doc.Arr
		ex.natState["jsonstr"] = a[0]
		return doc
	})
	reg("verifGuard", func(ex *Exec, a []Value) Value {
		g := guardRec{mu: a[0].(Ptr)}
		for _, f := range ex.sliceElems(a[1].(SliceVal)) {
			g.fields = append(g.fields, f.(IfaceVal).V.(Ptr))
		}
		ex.guards = append(ex.guards, g)
		return nil
	})
	reg("verifGuardStruct", func(ex *Exec, a []Value) Value {
		g := guardRec{mu: a[0].(Ptr)}
		iv := a[1].(IfaceVal)
		base := iv.V.(Ptr)
		st, ok := deref(iv.T).Underlying().(*types.Struct)
		if !ok {
			ex.internal("verifGuardStruct needs a pointer to a struct")
		}
		for i := 0; i < st.NumFields(); i++ {
			ft := st.Field(i).Type().Underlying()
			_, isMap := ft.(*types.Map)
			isInt := false
			if b, ok := ft.(*types.Basic); ok && b.Kind() == types.Int {
				isInt = true
			}
			if isMap || (isInt && st.Field(i).Name() != "bufMaxSize") {
				np := append(append([]int{}, base.Path...), i)
				g.fields = append(g.fields, Ptr{Obj: base.Obj, Path: np})
			}
		}
		ex.guards = append(ex.guards, g)
		return nil
	})
	reg("verifLockFree", func(ex *Exec, a []Value) Value {
		return Bool(ex.mutexHeld(a[0].(Ptr)) == 0)
	})
	reg("verifTimerHold", func(ex *Exec, a []Value) Value {
		ex.natState["timer.hold"] = true
		return nil
	})
	reg("verifTimerResets", func(ex *Exec, a []Value) Value {
		resets, _ := ex.natState["timer.resets"].([]*Term)
		el := make([]Value, len(resets))
		for i, r := range resets {
			el[i] = r
		}
		return ex.newSlice(types.Typ[types.Int64], el, len(el))
	})
	reg("verifLastNow", func(ex *Exec, a []Value) Value {
		if t, ok := ex.natState["time.last"].(*Term); ok {
			return t
		}
		return BV(0, 64)
	})
	reg("verifGo", func(ex *Exec, a []Value) Value {
		t := ex.spawnThread(a[0], nil, fmt.Sprintf("harness#%d", len(ex.threads)+1))
		ex.runThread(t)
		return nil
	})
	reg("verifYield", func(ex *Exec, a []Value) Value { return nil })
	reg("verifTook", func(ex *Exec, a []Value) Value { return nil })
	reg("verifRunThreads", func(ex *Exec, a []Value) Value {
		return BV(uint64(ex.RunThreads(concInt(ex, a[0]))), 64)
	})
	reg("verifCrashed", func(ex *Exec, a []Value) Value {
		if ex.crashed != nil {
			ex.observes = append(ex.observes, "crash in "+ex.crashedIn+": "+ex.crashed.Msg)
		}
		return Bool(ex.crashed != nil)
	})
	reg("verifOutcome", func(ex *Exec, a []Value) Value {
		ex.outcome = concStr(ex, a[0])
		return nil
	})
	reg("verifSymbolic", func(ex *Exec, a []Value) Value { return True })
	reg("verifNondetTime", func(ex *Exec, a []Value) Value {
		tag := concStr(ex, a[0])
		v := ex.freshVar(tag, 64)
		ex.recNondet(tag, "int", 64, v)
		return ex.mkTime(v)
	})
	reg("verifTimeNanos", func(ex *Exec, a []Value) Value {
		return a[0].(*StructVal).F[1]
	})
	reg("verifReachable", func(ex *Exec, a []Value) Value {
		// verifReachable(root any, target any) bool: is the object that target
		// points to reachable from root in the executor's heap?
		root := a[0].(IfaceVal)
		tgt := a[1].(IfaceVal).V.(Ptr)
		return Bool(ex.reachable(root.V, tgt.Obj))
	})
}

// mkTime builds a time.Time whose instant is the given nanosecond count
// (executor convention: wall = 0, ext = nanoseconds, loc = nil).
func (ex *Exec) mkTime(ns *Term) Value {
	return &StructVal{F: []Value{BV(0, 64), ns, Ptr{}}}
}

func (ex *Exec) reachable(v Value, target *Object) bool {
	seenObj := map[*Object]bool{}
	seenMap := map[*MapVal]bool{}
	var walk func(v Value) bool
	walkObj := func(o *Object) bool {
		if o == nil {
			return false
		}
		if o == target {
			return true
		}
		if seenObj[o] {
			return false
		}
		seenObj[o] = true
		return walk(ex.objVal(o))
	}
	walk = func(v Value) bool {
		switch x := v.(type) {
		case Ptr:
			return walkObj(x.Obj)
		case SliceVal:
			return walkObj(x.Arr) // the whole backing array keeps its elements alive
		case *StructVal:
			for _, f := range x.F {
				if walk(f) {
					return true
				}
			}
		case *ArrayVal:
			for _, f := range x.E {
				if walk(f) {
					return true
				}
			}
		case IfaceVal:
			return walk(x.V)
		case *Closure:
			if x != nil {
				for _, f := range x.Bind {
					if walk(f) {
						return true
					}
				}
			}
		case *MapVal:
			if x != nil && !seenMap[x] {
				seenMap[x] = true
				for _, e := range x.Entries {
					if walk(e.K) || walk(e.V) {
						return true
					}
				}
			}
		case Tuple:
			for _, f := range x {
				if walk(f) {
					return true
				}
			}
		}
		return false
	}
	return walk(v)
}

var _ = fmt.Sprint
var _ types.Type

type guardRec struct {
	mu     Ptr
	fields []Ptr
}

func samePtr(a, b Ptr) bool {
	if a.Obj != b.Obj || len(a.Path) != len(b.Path) {
		return false
	}
	for i := range a.Path {
		if a.Path[i] != b.Path[i] {
			return false
		}
	}
	return true
}

// guardAccess checks the lock discipline declared with verifGuard for an
// access through pointer p (write = store).
func (ex *Exec) guardAccess(p Ptr, write bool) {
	for _, g := range ex.guards {
		for _, f := range g.fields {
			if samePtr(p, f) {
				ex.guardCheck(g, write, "field")
			}
		}
	}
}

// guardMap checks an operation on map m if m is (or is an inner map of) a guarded field.
func (ex *Exec) guardMap(m *MapVal, write bool) {
	if m == nil {
		return
	}
	for _, g := range ex.guards {
		for _, f := range g.fields {
			fv, ok := ex.load(f).(*MapVal)
			if !ok || fv == nil {
				continue
			}
			hit := fv == m
			if !hit {
				for _, e := range fv.Entries {
					if inner, ok := e.V.(*MapVal); ok && inner == m {
						hit = true
					}
				}
			}
			if hit {
				ex.guardCheck(g, write, "map")
			}
		}
	}
}

func (ex *Exec) guardCheck(g guardRec, write bool, what string) {
	st := ex.mutexHeld(g.mu)
	switch {
	case write && st != -1:
		ex.Assert(False, "lock-discipline/write-to-guarded-"+what+"-without-exclusive-lock")
	case !write && st == 0:
		ex.Assert(False, "lock-discipline/read-of-guarded-"+what+"-without-lock")
	}
}
