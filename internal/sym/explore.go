package sym

import (
	"fmt"
	"sort"
	"strings"
	"sync"
	"time"

	"golang.org/x/tools/go/ssa"
)

type decKind uint8

const (
	dBranch decKind = iota // val 0/1
	dChoose                // val in [0,n)
	dConc                  // val = concrete value chosen for a term
	dSched                 // val = index of the transition fired at a scheduling point
)

type decision struct {
	kind decKind
	val  int64
}

type job struct {
	prefix []decision
	model  map[string]uint64 // a model known to satisfy the prefix (may be nil)
	// pre[i]: for the scheduling decision at index i of the prefix, the sibling
	// transitions already explored there (sleep-set partial-order reduction)
	pre map[int][]sleepEntry
}

// Violation is a failed assertion or escaped panic, with a replay vector.
type Violation struct {
	Label   string      `json:"label"`
	Harness string      `json:"harness"`
	Known   string      `json:"known,omitempty"`
	Values  []NondetRec `json:"values"`
	Detail  string      `json:"detail,omitempty"`
	Observe []string    `json:"observe,omitempty"`
	Sched   []SchedStep `json:"schedule,omitempty"`
}

type PathResult struct {
	Status     string // "ok", "pruned", "unwind", "internal"
	Msg        string
	Violations []*Violation
}

type Stats struct {
	Paths, Pruned, Unwind    int
	AssertsReached           int
	AssertsDischargedBySMT   int
	AssertsConcrete          int
	Queries                  int
	SolverTime               time.Duration
	Unknowns                 int
	Decisions                int
	Steps                    int64
	Covers                   map[string]int
	AssertLabels             map[string]int
	Funcs                    map[string]bool
	Samples                  []map[string]interface{}
	MaxPathDecisions         int
	FastResolved, ModelSaved int
	Outcomes                 map[string]int
	SleepBlocked             int
}

type Explorer struct {
	P        *Program
	Harness  *ssa.Function
	Opt      Options
	Workers  int
	SolverK  string
	Timeout  int
	Params   map[string]int
	KnownFor map[string][]string
	KnownPrefix map[string][]string // assertion label prefix -> names of known-finding predicates that suppress it
	MaxViol  int
	Samples  int
	Deadline time.Time

	mu         sync.Mutex
	cond       *sync.Cond
	stack      []*job
	active     int
	stop       bool
	Stats      Stats
	Violations []*Violation
	Internal   []string
	violSeen   map[string]int
	internalCount int
}

func NewExplorer(p *Program, harness string) (*Explorer, error) {
	fn := p.FindFunc(harness)
	if fn == nil {
		return nil, fmt.Errorf("harness %s not found", harness)
	}
	e := &Explorer{P: p, Harness: fn, Workers: 8, SolverK: "z3", Timeout: 60000, MaxViol: 3, Samples: 4,
		Opt: Options{MaxSteps: 3000000, MaxCallDepth: 200}}
	e.cond = sync.NewCond(&e.mu)
	e.Stats.Covers = map[string]int{}
	e.Stats.AssertLabels = map[string]int{}
	e.Stats.Funcs = map[string]bool{}
	e.violSeen = map[string]int{}
	return e, nil
}

func (e *Explorer) push(j *job) {
	e.mu.Lock()
	e.stack = append(e.stack, j)
	e.mu.Unlock()
	e.cond.Signal()
}

// Run explores all paths of the harness.
func (e *Explorer) Run() {
	e.stack = []*job{{}}
	var wg sync.WaitGroup
	for w := 0; w < e.Workers; w++ {
		wg.Add(1)
		go func(w int) {
			defer wg.Done()
			var solver *Solver
			defer func() { solver.Close() }()
			for {
				e.mu.Lock()
				for len(e.stack) == 0 && e.active > 0 && !e.stop {
					e.cond.Wait()
				}
				if e.stop || (len(e.stack) == 0 && e.active == 0) {
					e.mu.Unlock()
					e.cond.Broadcast()
					return
				}
				j := e.stack[len(e.stack)-1]
				e.stack = e.stack[:len(e.stack)-1]
				e.active++
				e.mu.Unlock()

				if solver == nil {
					s, err := NewSolver(e.SolverK, e.Timeout)
					if err != nil {
						e.fail("solver start: " + err.Error())
					}
					solver = s
				}
				ex := &Exec{P: e.P, S: solver, Opt: e.Opt, exp: e}
				res := ex.runPath(e.Harness, j)
				if res.Status == "internal" && solver != nil {
					// the solver may be out of sync; restart it
					solver.Close()
					solver = nil
				}
				e.collect(ex, res)

				e.mu.Lock()
				e.active--
				if !e.Deadline.IsZero() && time.Now().After(e.Deadline) {
					e.Internal = append(e.Internal, "deadline exceeded before exploration finished")
					e.stop = true
				}
				e.mu.Unlock()
				e.cond.Broadcast()
			}
		}(w)
	}
	wg.Wait()
}

func (e *Explorer) fail(msg string) {
	e.mu.Lock()
	e.Internal = append(e.Internal, msg)
	e.stop = true
	e.mu.Unlock()
	e.cond.Broadcast()
}

func (e *Explorer) collect(ex *Exec, res *PathResult) {
	e.mu.Lock()
	defer e.mu.Unlock()
	st := &e.Stats
	switch res.Status {
	case "ok":
		st.Paths++
	case "pruned":
		st.Pruned++
	case "unwind":
		st.Unwind++
		e.Internal = append(e.Internal, res.Msg)
	case "internal":
		dup := false
		for _, m := range e.Internal {
			if m == res.Msg {
				dup = true
			}
		}
		if !dup {
			e.Internal = append(e.Internal, res.Msg)
		}
		e.internalCount++
		if e.internalCount > 50 {
			e.stop = true
		}
	}
	st.Decisions += len(ex.decisions)
	if len(ex.decisions) > st.MaxPathDecisions {
		st.MaxPathDecisions = len(ex.decisions)
	}
	st.Steps += int64(ex.steps)
	st.Queries += ex.queries
	st.SolverTime += ex.solverTime
	st.Unknowns += ex.unknowns
	st.AssertsReached += ex.assertsReached
	st.AssertsDischargedBySMT += ex.assertsSMT
	st.AssertsConcrete += ex.assertsConcrete
	st.FastResolved += ex.fastResolved
	st.ModelSaved += ex.modelSaved
	for k, v := range ex.covers {
		st.Covers[k] += v
	}
	if ex.outcome != "" && res.Status == "ok" {
		if st.Outcomes == nil {
			st.Outcomes = map[string]int{}
		}
		st.Outcomes[ex.outcome]++
	}
	st.SleepBlocked += ex.sleepBlocked
	for k, v := range ex.assertLabels {
		st.AssertLabels[k] += v
	}
	for f := range ex.funcsRun {
		st.Funcs[f.String()] = true
	}
	if res.Status == "ok" && len(st.Samples) < e.Samples && ex.sample != nil {
		st.Samples = append(st.Samples, ex.sample)
	}
	for _, v := range res.Violations {
		key := v.Label + "|" + v.Known
		e.violSeen[key]++
		if e.violSeen[key] <= e.MaxViol {
			e.Violations = append(e.Violations, v)
		}
	}
}

// ---- per-path machinery ----

func (ex *Exec) runPath(harness *ssa.Function, j *job) (res *PathResult) {
	ex.shadow = map[*Object]Value{}
	ex.prefix = j.prefix
	ex.preAt = j.pre
	ex.sleep = nil
	ex.outcome = ""
	ex.sleepBlocked = 0
	ex.nobj = 1 << 20 // run-time object ids are deterministic per path and disjoint from initialisation-time ids
	ex.decisionsX = ex.decisionsX[:0]
	ex.inputSeq = map[string]int{}
	ex.facts = map[uint64][]fact{}
	ex.covers = map[string]int{}
	ex.assertLabels = map[string]int{}
	ex.funcsRun = map[*ssa.Function]bool{}
	ex.known = map[string]*Term{}
	ex.mutexState = map[*Object]int{}
	ex.natState = map[string]interface{}{}
	ex.aliases = nil
	ex.guards = nil
	ex.threads, ex.curThread, ex.crashed, ex.crashedIn, ex.schedTrace, ex.schedSteps = nil, nil, nil, "", nil, nil
	if j.model != nil {
		ex.models = []map[string]uint64{j.model}
	}
	res = &PathResult{Status: "ok"}
	ex.out = res
	startDepth := ex.S.Depth()
	q0, t0 := ex.S.Queries, ex.S.Time
	defer func() {
		if r := recover(); r != nil {
			switch x := r.(type) {
			case *pathAbort:
				if strings.HasPrefix(x.Reason, "UNWIND") {
					res.Status, res.Msg = "unwind", x.Reason
				} else {
					res.Status, res.Msg = "pruned", x.Reason
				}
			case *goPanic:
				// a Go panic escaped the harness: that is a violation
				ex.reportViolation("panic: "+x.Msg, "escaped Go panic in "+x.Where, nil)
			case *hangAbort:
				// the call under test never returns: a violation once a native hang confirms it
				ex.reportViolation("hang: "+x.Msg, "in "+x.Where, nil)
			case *InternalError:
				res.Status, res.Msg = "internal", x.Msg+" (harness "+harness.Name()+")"
			default:
				res.Status, res.Msg = "internal", fmt.Sprintf("executor crash: %v", r)
				if ex.Opt.Verbose {
					panic(r)
				}
			}
		}
		ex.killThreads()
		if res.Status != "internal" {
			ex.S.PopTo(startDepth)
		}
		ex.queries = ex.S.Queries - q0
		ex.solverTime = ex.S.Time - t0
		ex.decisions = ex.decisionsX
	}()
	ex.callFunction(nil, harness, nil, nil, nil)
	if ex.exp != nil && ex.exp.wantSample() {
		ex.sample = ex.makeSample()
	}
	return res
}

func (e *Explorer) wantSample() bool {
	e.mu.Lock()
	defer e.mu.Unlock()
	return len(e.Stats.Samples) < e.Samples
}

func (ex *Exec) makeSample() map[string]interface{} {
	m := ex.anyModel()
	if m == nil {
		return nil
	}
	s := map[string]interface{}{}
	var in []string
	for _, r := range ex.nondetValues(m) {
		in = append(in, fmt.Sprintf("%s#%d=%v", r.Tag, r.Ord, r.V))
	}
	s["inputs"] = in
	s["values"] = ex.nondetValues(m)
	s["decisions"] = len(ex.decisionsX)
	if len(ex.observes) > 0 {
		s["observed"] = ex.observes
	}
	return s
}

// flushPC sends pending path-condition terms to the solver.
func (ex *Exec) flushPC() {
	if !ex.pushed {
		ex.S.Push()
		ex.pushed = true
	}
	for _, t := range ex.pending {
		ex.S.Assert(t)
	}
	ex.pending = ex.pending[:0]
}

func (ex *Exec) addPC(t *Term) {
	if t.IsTrue() {
		return
	}
	ex.pcTerms = append(ex.pcTerms, t)
	ex.pending = append(ex.pending, t)
	ex.addFact(t, true)
	// keep only cached models that still satisfy the path condition
	if len(ex.models) > 0 {
		kept := ex.models[:0]
		for _, m := range ex.models {
			if Eval(t, m, map[*Term]uint64{}) == 1 {
				kept = append(kept, m)
			}
		}
		ex.models = kept
	}
}

func (ex *Exec) addFact(t *Term, val bool) {
	switch {
	case t.Op == ONot:
		ex.addFact(t.Args[0], !val)
		return
	case t.Op == OAnd && val, t.Op == OOr && !val:
		ex.addFact(t.Args[0], val)
		ex.addFact(t.Args[1], val)
		return
	}
	h := t.Hash()
	ex.facts[h] = append(ex.facts[h], fact{t, val})
	ex.domainFact(t, val)
}

// lookupFact returns (value, true) if the truth of t follows syntactically
// from the asserted path condition.
func (ex *Exec) lookupFact(t *Term) (bool, bool) {
	neg := false
	for t.Op == ONot {
		t = t.Args[0]
		neg = !neg
	}
	for _, f := range ex.facts[t.Hash()] {
		if TermEqual(f.t, t) {
			return f.val != neg, true
		}
	}
	if v, ok := ex.domainLookup(t); ok {
		return v != neg, true
	}
	switch t.Op {
	case OAnd:
		a, oka := ex.lookupFact(t.Args[0])
		b, okb := ex.lookupFact(t.Args[1])
		if (oka && !a) || (okb && !b) {
			return neg, true
		}
		if oka && okb {
			return (a && b) != neg, true
		}
	case OOr:
		a, oka := ex.lookupFact(t.Args[0])
		b, okb := ex.lookupFact(t.Args[1])
		if (oka && a) || (okb && b) {
			return !neg, true
		}
		if oka && okb {
			return (a || b) != neg, true
		}
	}
	return false, false
}

// feasible reports whether pc ∧ c is satisfiable; it may return a model.
func (ex *Exec) feasible(c *Term) (SatResult, map[string]uint64) {
	for _, m := range ex.models {
		if Eval(c, m, map[*Term]uint64{}) == 1 {
			ex.modelSaved++
			return Sat, m
		}
	}
	ex.flushPC()
	ex.S.Push()
	ex.S.Assert(c)
	r := ex.S.Check()
	var m map[string]uint64
	if r == Sat {
		m = ex.S.Model(ex.inputs)
	}
	ex.S.Pop()
	if r == Unknown {
		ex.unknowns++
	}
	return r, m
}

func (ex *Exec) nextDecision() (decision, bool) {
	i := len(ex.decisionsX)
	if i < len(ex.prefix) {
		return ex.prefix[i], true
	}
	return decision{}, false
}

func (ex *Exec) logDecision(d decision) { ex.decisionsX = append(ex.decisionsX, d) }

func (ex *Exec) spawn(alt decision, model map[string]uint64) {
	if ex.exp == nil {
		return
	}
	p := make([]decision, len(ex.decisionsX)+1)
	copy(p, ex.decisionsX)
	p[len(ex.decisionsX)] = alt
	ex.exp.push(&job{prefix: p, model: model, pre: ex.preAt})
}

// Branch decides a Boolean term, forking when both outcomes are feasible.
func (ex *Exec) Branch(c *Term) bool {
	if c.IsConst() {
		return c.Val == 1
	}
	if v, ok := ex.lookupFact(c); ok {
		ex.fastResolved++
		return v
	}
	if ex.P.initPhase {
		ex.internal("symbolic branch during package initialisation")
	}
	if d, ok := ex.nextDecision(); ok {
		if d.kind != dBranch {
			ex.internal("replay divergence: expected branch decision, log has kind %d", d.kind)
		}
		ex.logDecision(d)
		if d.val == 1 {
			ex.addPC(c)
			return true
		}
		ex.addPC(Not(c))
		return false
	}
	rt, mt := ex.feasible(c)
	var rf SatResult
	var mf map[string]uint64
	if rt == Unsat {
		rf = Sat // pc is satisfiable, so the other side must be
	} else {
		rf, mf = ex.feasible(Not(c))
	}
	tOK, fOK := rt != Unsat, rf != Unsat
	switch {
	case tOK && fOK:
		ex.spawn(decision{dBranch, 0}, mf)
		ex.logDecision(decision{dBranch, 1})
		ex.addPC(c)
		if mt != nil && len(ex.models) == 0 {
			ex.models = append(ex.models, mt)
		}
		return true
	case tOK:
		ex.logDecision(decision{dBranch, 1})
		ex.addPC(c)
		return true
	case fOK:
		ex.logDecision(decision{dBranch, 0})
		ex.addPC(Not(c))
		return false
	}
	panic(&pathAbort{Reason: "infeasible path condition"})
}

// Choose forks over n alternatives unconditionally.
func (ex *Exec) Choose(tag string, n int) int {
	if n <= 1 {
		return 0
	}
	if ex.P.initPhase {
		ex.internal("choice during package initialisation")
	}
	if d, ok := ex.nextDecision(); ok {
		if d.kind != dChoose || int(d.val) >= n {
			ex.internal("replay divergence at choose %s", tag)
		}
		ex.logDecision(d)
		return int(d.val)
	}
	var m map[string]uint64
	if len(ex.models) > 0 {
		m = ex.models[0]
	}
	for k := n - 1; k >= 1; k-- {
		ex.spawn(decision{dChoose, int64(k)}, m)
	}
	ex.logDecision(decision{dChoose, 0})
	return 0
}

// Concretize returns a concrete value for t, forking over all feasible values
// (at most 64, otherwise the run aborts as unsupported).
func (ex *Exec) Concretize(t *Term) int64 {
	if t.IsConst() {
		return t.SInt()
	}
	if d, ok := ex.nextDecision(); ok {
		if d.kind != dConc {
			ex.internal("replay divergence at concretize")
		}
		ex.logDecision(d)
		ex.addPC(Eq(t, BV(uint64(d.val), t.W)))
		return d.val
	}
	var vals []int64
	var mods []map[string]uint64
	excl := True
	for {
		r, m := ex.feasible(excl)
		if r == Unknown {
			ex.internal("solver unknown while concretising a value")
		}
		if r == Unsat {
			break
		}
		v := signExt(Eval(t, m, map[*Term]uint64{}), t.W)
		vals = append(vals, v)
		mods = append(mods, m)
		excl = And(excl, Not(Eq(t, BV(uint64(v), t.W))))
		if len(vals) > 64 {
			ex.internal("more than 64 feasible values for a term that must be concrete: %s", t)
		}
	}
	if len(vals) == 0 {
		panic(&pathAbort{Reason: "infeasible path condition"})
	}
	// deterministic order
	idx := make([]int, len(vals))
	for i := range idx {
		idx[i] = i
	}
	sort.Slice(idx, func(a, b int) bool { return vals[idx[a]] < vals[idx[b]] })
	for k := len(idx) - 1; k >= 1; k-- {
		ex.spawn(decision{dConc, vals[idx[k]]}, mods[idx[k]])
	}
	v := vals[idx[0]]
	ex.logDecision(decision{dConc, v})
	ex.addPC(Eq(t, BV(uint64(v), t.W)))
	return v
}

// Assume constrains the path; an infeasible assumption ends the path.
func (ex *Exec) Assume(c *Term) {
	if c.IsTrue() {
		return
	}
	if c.IsFalse() {
		panic(&pathAbort{Reason: "assumption false"})
	}
	if v, ok := ex.lookupFact(c); ok {
		if v {
			return
		}
		panic(&pathAbort{Reason: "assumption false"})
	}
	if len(ex.decisionsX) >= len(ex.prefix) {
		r, m := ex.feasible(c)
		if r == Unsat {
			panic(&pathAbort{Reason: "assumption infeasible"})
		}
		ex.addPC(c)
		if m != nil && len(ex.models) == 0 {
			ex.models = append(ex.models, m)
		}
		return
	}
	ex.addPC(c)
}

func (ex *Exec) anyModel() map[string]uint64 {
	if len(ex.models) > 0 {
		return ex.models[0]
	}
	r, m := ex.feasible(True)
	if r != Sat {
		return nil
	}
	ex.models = append(ex.models, m)
	return m
}

// Assert checks a property on the current path.
func (ex *Exec) Assert(c *Term, label string) {
	ex.assertsReached++
	ex.assertLabels[label]++
	if c.IsTrue() {
		ex.assertsConcrete++
		return
	}
	if v, ok := ex.lookupFact(c); ok && v {
		ex.assertsConcrete++
		return
	}
	// known-finding predicates registered on this path that suppress this label
	suppress := False
	var names []string
	if ex.exp != nil {
		for prefix, preds := range ex.exp.KnownPrefix {
			if !strings.HasPrefix(label, prefix) {
				continue
			}
			for _, n := range preds {
				if k, ok := ex.known[n]; ok {
					suppress = Or(suppress, k)
					names = append(names, n)
				}
			}
		}
		sort.Strings(names)
	}
	neg := Not(c)
	r, m := ex.feasible(And(neg, Not(suppress)))
	switch r {
	case Sat:
		ex.reportViolation(label, "", m)
	case Unknown:
		ex.out.Status = "internal"
		ex.out.Msg = "solver returned unknown for assertion " + label
		panic(&InternalError{Msg: ex.out.Msg})
	default:
		if !suppress.IsFalse() {
			r2, m2 := ex.feasible(neg)
			if r2 == Sat {
				v := ex.reportViolation(label, "", m2)
				v.Known = strings.Join(names, ",")
			} else if r2 == Unknown {
				panic(&InternalError{Msg: "solver returned unknown for assertion " + label})
			}
		}
		ex.assertsSMT++
	}
	// continue under the assumption that the assertion holds
	ex.Assume(c)
}

func (ex *Exec) reportViolation(label, detail string, m map[string]uint64) *Violation {
	if m == nil {
		m = ex.anyModel()
	}
	v := &Violation{Label: label, Detail: detail}
	if ex.exp != nil {
		v.Harness = ex.exp.Harness.Name()
	}
	if m != nil {
		v.Values = ex.nondetValues(m)
	}
	v.Observe = append(v.Observe, ex.observes...)
	if len(ex.schedSteps) > 0 {
		v.Sched = append(v.Sched, ex.schedSteps...)
	}
	if len(ex.schedTrace) > 0 {
		v.Observe = append(v.Observe, "schedule:")
		v.Observe = append(v.Observe, ex.schedTrace...)
	}
	ex.out.Violations = append(ex.out.Violations, v)
	return v
}

func (ex *Exec) nondetValues(m map[string]uint64) []NondetRec {
	out := make([]NondetRec, len(ex.nondets))
	for i, r := range ex.nondets {
		o := r
		switch r.Kind {
		case "bytes", "string":
			bs := make([]int, len(r.Vars))
			for k, n := range r.Vars {
				bs[k] = int(m[n])
			}
			o.V = bs
		case "choose":
			o.V = r.Conc
		case "bool":
			o.V = m[r.Vars[0]] == 1
		case "float":
			o.V = fmt.Sprintf("%016x", m[r.Vars[0]])
		default:
			o.V = signExt(m[r.Vars[0]], r.Len)
		}
		out[i] = o
	}
	return out
}

func sanitize(tag string) string {
	var sb strings.Builder
	for _, c := range tag {
		if c >= 'a' && c <= 'z' || c >= 'A' && c <= 'Z' || c >= '0' && c <= '9' || c == '_' || c == '.' {
			sb.WriteRune(c)
		} else {
			sb.WriteByte('_')
		}
	}
	return sb.String()
}

func (ex *Exec) freshName(tag string, w int) string {
	tag = sanitize(tag)
	n := ex.inputSeq[tag]
	ex.inputSeq[tag] = n + 1
	return fmt.Sprintf("%s!%d!w%d", tag, n, w)
}

func (ex *Exec) freshVar(tag string, w int) *Term {
	v := Var(ex.freshName(tag, w), w)
	ex.inputs = append(ex.inputs, v)
	return v
}

func (ex *Exec) freshFloat(tag string) *Term {
	v := FVar(ex.freshName(tag, 640))
	ex.inputs = append(ex.inputs, v)
	return v
}

func (ex *Exec) params() map[string]int {
	if ex.exp != nil && ex.exp.Params != nil {
		return ex.exp.Params
	}
	return ex.P.Params
}
