package sym

import (
	"fmt"
	"go/types"

	"golang.org/x/tools/go/ssa"
)

// Goroutines of the interpreted program. Exactly one interpreted thread runs
// at a time; a thread parks before every visible operation (channel send,
// receive, select, close). The scheduler (run by the harness thread through
// the verifRunThreads intrinsic) computes the enabled transitions - buffered
// operations, rendezvous pairs, operations on closed channels - and the one
// that fires is a forked choice (Exec.Choose), so every interleaving of
// visible operations within the bound is explored; all data (environment
// outcomes, topic matches) stays symbolic inside each interleaving.

const (
	opSend = iota
	opRecv
	opSelect
	opClose
	opLock // sync.Mutex / sync.RWMutex acquisition (mode in lockMode)
)

const (
	lmLock = iota
	lmRLock
	lmTryLock
	lmTryRLock
)

type selCase struct {
	ch   *ChanVal
	send bool
	val  Value
}

type pendingOp struct {
	kind     int
	ch       *ChanVal
	val      Value
	cases    []selCase
	blocking bool
	where    string
	mu       *Object // opLock: the mutex (state in Exec.mutexState)
	lockMode int
	// results
	resVal   Value
	resOk    bool
	selIdx   int
	panicMsg string
}

type thread struct {
	id       int
	name     string
	resume   chan bool
	yield    chan *pendingOp
	pending  *pendingOp
	done     bool
	started  bool
	panicked *goPanic
	fatal    interface{}
	curFrame *frame
	depth    int
	fn       Value
	args     []Value
	steps    int
}

type threadKill struct{}

type transition struct {
	kind           int // 0 single-thread op, 1 rendezvous, 2 select default
	t, t2          *thread
	caseIdx, case2 int // select case indices (-1 for plain ops)
	desc           string
}

func (ex *Exec) spawnThread(fn Value, args []Value, name string) *thread {
	t := &thread{id: len(ex.threads) + 1, name: name, resume: make(chan bool), yield: make(chan *pendingOp), fn: fn, args: args}
	ex.threads = append(ex.threads, t)
	go func() {
		defer func() {
			if r := recover(); r != nil {
				switch x := r.(type) {
				case threadKill:
				case *goPanic:
					t.panicked = x
				default:
					t.fatal = r
				}
			}
			t.done = true
			t.yield <- nil
		}()
		if !<-t.resume {
			panic(threadKill{})
		}
		ex.curThread = t
		ex.curFrame = nil
		ex.callDepth = 0
		ex.callValue(nil, t.fn, t.args, nil)
	}()
	return t
}

func (ex *Exec) goStmtThread(fr *frame, in *ssa.Go) {
	var fn Value
	var args []Value
	name := ""
	if in.Call.IsInvoke() {
		recv := ex.get(fr, in.Call.Value).(IfaceVal)
		f := ex.lookupMethod(recv, in.Call.Method)
		fn = &Closure{Fn: f}
		args = append([]Value{recv.V}, ex.getArgs(fr, in.Call.Args)...)
		name = f.Name()
	} else {
		fn = ex.get(fr, in.Call.Value)
		args = ex.getArgs(fr, in.Call.Args)
		if c, ok := fn.(*Closure); ok && c != nil && c.Fn != nil {
			name = c.Fn.Name()
		}
	}
	t := ex.spawnThread(fn, args, fmt.Sprintf("%s#%d", name, len(ex.threads)+1))
	// run the new thread up to its first visible operation (invisible steps commute)
	ex.runThread(t)
}

// runThread resumes t until it parks at its next visible operation or finishes.
func (ex *Exec) runThread(t *thread) {
	savedT, savedF, savedD := ex.curThread, ex.curFrame, ex.callDepth
	t.started = true
	t.resume <- true
	op := <-t.yield
	ex.curThread, ex.curFrame, ex.callDepth = savedT, savedF, savedD
	t.pending = op
	if op == nil {
		t.done = true
		if t.fatal != nil {
			f := t.fatal
			t.fatal = nil
			panic(f) // path abort / internal error raised inside the thread
		}
		if t.panicked != nil && ex.crashed == nil {
			ex.crashed = t.panicked
			ex.crashedIn = t.name
		}
	}
}

// park is called by an interpreted thread about to perform a visible operation.
func (ex *Exec) park(op *pendingOp) {
	t := ex.curThread
	t.curFrame, t.depth = ex.curFrame, ex.callDepth
	if ex.curFrame != nil {
		op.where = ex.curFrame.fn.Name()
	}
	t.yield <- op
	if !<-t.resume {
		panic(threadKill{})
	}
	ex.curThread, ex.curFrame, ex.callDepth = t, t.curFrame, t.depth
	if op.panicMsg != "" {
		ex.goPanicf("%s", op.panicMsg)
	}
}

func (ex *Exec) killThreads() {
	for _, t := range ex.threads {
		if t.done {
			continue
		}
		if !t.started {
			t.resume <- false
			<-t.yield
			continue
		}
		if t.pending != nil {
			t.resume <- false
			<-t.yield
		}
	}
	ex.threads = nil
	ex.curThread = nil
}

func chanName(c *ChanVal) string {
	if c == nil {
		return "nilchan"
	}
	if c.Note != "" {
		return c.Note
	}
	return fmt.Sprintf("ch%d", c.ID)
}

// enabledTransitions lists every transition that can fire now, in a deterministic order.
func (ex *Exec) enabledTransitions() []transition {
	var out []transition
	type ep struct {
		t    *thread
		idx  int // select case or -1
		ch   *ChanVal
		send bool
	}
	var eps []ep
	for _, t := range ex.threads {
		if t.done || t.pending == nil {
			continue
		}
		op := t.pending
		switch op.kind {
		case opClose:
			out = append(out, transition{kind: 0, t: t, caseIdx: -1, desc: fmt.Sprintf("T%d %s: close(%s)", t.id, op.where, chanName(op.ch))})
		case opLock:
			st := ex.mutexState[op.mu]
			ok := true
			switch op.lockMode {
			case lmLock:
				ok = st == 0
			case lmRLock:
				ok = st >= 0
			}
			if ok {
				out = append(out, transition{kind: 0, t: t, caseIdx: -1, desc: fmt.Sprintf("T%d %s: %s(mutex of obj%d)", t.id, op.where, []string{"Lock", "RLock", "TryLock", "TryRLock"}[op.lockMode], op.mu.ID)})
			}
		case opSend:
			eps = append(eps, ep{t, -1, op.ch, true})
		case opRecv:
			eps = append(eps, ep{t, -1, op.ch, false})
		case opSelect:
			for i, c := range op.cases {
				eps = append(eps, ep{t, i, c.ch, c.send})
			}
		}
	}
	single := func(e ep) bool {
		c := e.ch
		if c == nil {
			return false
		}
		if e.send {
			return c.Closed || len(c.Buf) < c.Cap
		}
		return len(c.Buf) > 0 || c.Closed
	}
	selEnabled := map[*thread]bool{}
	for _, e := range eps {
		if single(e) {
			dir := "recv"
			if e.send {
				dir = "send"
			}
			out = append(out, transition{kind: 0, t: e.t, caseIdx: e.idx, desc: fmt.Sprintf("T%d %s: %s %s", e.t.id, e.t.pending.where, dir, chanName(e.ch))})
			selEnabled[e.t] = true
		}
	}
	// rendezvous on unbuffered channels
	for _, s := range eps {
		if !s.send || s.ch == nil || s.ch.Cap != 0 || s.ch.Closed {
			continue
		}
		for _, r := range eps {
			if r.send || r.ch != s.ch || r.t == s.t {
				continue
			}
			out = append(out, transition{kind: 1, t: s.t, t2: r.t, caseIdx: s.idx, case2: r.idx,
				desc: fmt.Sprintf("T%d %s -> T%d %s over %s", s.t.id, s.t.pending.where, r.t.id, r.t.pending.where, chanName(s.ch))})
			selEnabled[s.t], selEnabled[r.t] = true, true
		}
	}
	for _, t := range ex.threads {
		if t.done || t.pending == nil || t.pending.kind != opSelect || t.pending.blocking {
			continue
		}
		if !selEnabled[t] {
			out = append(out, transition{kind: 2, t: t, caseIdx: -1, desc: fmt.Sprintf("T%d %s: select default", t.id, t.pending.where)})
		}
	}
	return out
}

func opCase(op *pendingOp, idx int) (ch *ChanVal, send bool, val Value) {
	if idx < 0 {
		return op.ch, op.kind == opSend, op.val
	}
	c := op.cases[idx]
	return c.ch, c.send, c.val
}

// SchedStep is one fired transition in replayable form: the threads involved and,
// for each, the select case it takes (-1: plain operation, -2: select default).
type SchedStep struct {
	T []int `json:"t"`
	C []int `json:"c"`
}

func (ex *Exec) fire(tr transition) {
	ex.schedTrace = append(ex.schedTrace, tr.desc)
	st := SchedStep{T: []int{tr.t.id}, C: []int{tr.caseIdx}}
	if tr.kind == 2 {
		st.C[0] = -2
	}
	if tr.t2 != nil {
		st.T = append(st.T, tr.t2.id)
		st.C = append(st.C, tr.case2)
	}
	ex.schedSteps = append(ex.schedSteps, st)
	switch tr.kind {
	case 2:
		tr.t.pending.selIdx = -1
		ex.runThread(tr.t)
	case 1:
		sop, rop := tr.t.pending, tr.t2.pending
		_, _, v := opCase(sop, tr.caseIdx)
		rop.resVal, rop.resOk, rop.selIdx = v, true, tr.case2
		sop.selIdx = tr.caseIdx
		ex.runThread(tr.t2)
		ex.runThread(tr.t)
	case 0:
		op := tr.t.pending
		op.selIdx = tr.caseIdx
		if op.kind == opLock {
			st := ex.mutexState[op.mu]
			switch op.lockMode {
			case lmLock:
				ex.mutexState[op.mu] = -1
			case lmRLock:
				ex.mutexState[op.mu] = st + 1
			case lmTryLock:
				op.resOk = st == 0
				if op.resOk {
					ex.mutexState[op.mu] = -1
				}
			case lmTryRLock:
				op.resOk = st >= 0
				if op.resOk {
					ex.mutexState[op.mu] = st + 1
				}
			}
			ex.runThread(tr.t)
			return
		}
		if op.kind == opClose {
			switch {
			case op.ch == nil:
				op.panicMsg = "close of nil channel"
			case op.ch.Closed:
				op.panicMsg = "close of closed channel"
			default:
				op.ch.Closed = true
			}
			ex.runThread(tr.t)
			return
		}
		ch, send, v := opCase(op, tr.caseIdx)
		if send {
			if ch.Closed {
				op.panicMsg = "send on closed channel"
			} else {
				ch.Buf = append(ch.Buf, v)
			}
		} else {
			if len(ch.Buf) > 0 {
				op.resVal, op.resOk = ch.Buf[0], true
				ch.Buf = ch.Buf[1:]
			} else {
				op.resVal, op.resOk = Zero(ch.Elem), false
			}
		}
		ex.runThread(tr.t)
	}
}

type sleepEntry struct {
	sig     string
	threads [2]int
	chans   []int
	r, w    map[int]bool
	wild    bool // its continuation forked on data: never treated as independent
}

func (tr *transition) threadIDs() [2]int {
	ids := [2]int{tr.t.id, 0}
	if tr.t2 != nil {
		ids[1] = tr.t2.id
	}
	return ids
}

func (tr *transition) chanIDs() []int {
	var out []int
	add := func(t *thread, idx int) {
		if t == nil || t.pending == nil {
			return
		}
		if t.pending.kind == opLock {
			out = append(out, -t.pending.mu.ID-1) // a mutex orders its acquisitions like a channel
			return
		}
		ch, _, _ := opCase(t.pending, idx)
		if ch != nil {
			out = append(out, ch.ID)
		}
	}
	if tr.kind == 2 {
		// a select default fires because none of its cases is ready: it depends on all their channels
		for i := range tr.t.pending.cases {
			add(tr.t, i)
		}
		return out
	}
	add(tr.t, tr.caseIdx)
	if tr.t2 != nil {
		add(tr.t2, tr.case2)
	}
	return out
}

func independent(a, b *sleepEntry) bool {
	if a.wild || b.wild {
		return false
	}
	for _, x := range a.threads {
		for _, y := range b.threads {
			if x != 0 && x == y {
				return false
			}
		}
	}
	for _, x := range a.chans {
		for _, y := range b.chans {
			if x == y {
				return false
			}
		}
	}
	for o := range a.w {
		if b.w[o] || b.r[o] {
			return false
		}
	}
	for o := range b.w {
		if a.r[o] {
			return false
		}
	}
	return true
}

// RunThreads runs the scheduler until no transition is enabled (or the step
// bound is hit). It returns the number of threads that have not finished.
//
// Interleavings are explored with sleep sets: when a transition t is fired at
// a scheduling point, the sibling transitions already explored there stay
// "asleep" in t's subtree for as long as only transitions independent of them
// fire (disjoint threads, disjoint channels, and no write/read or write/write
// overlap of the heap objects their continuations touched; a continuation that
// forks on data is never independent). A path on which every enabled
// transition is asleep is redundant and dropped.
func (ex *Exec) RunThreads(maxSteps int) int {
	steps := 0
	por := !ex.Opt.NoPOR
	for ex.crashed == nil {
		trs := ex.enabledTransitions()
		if len(trs) == 0 {
			break
		}
		if steps >= maxSteps {
			panic(&pathAbort{Reason: "UNWIND-EXCEEDED: scheduler step bound"})
		}
		steps++
		asleep := func(sig string) bool {
			for i := range ex.sleep {
				if ex.sleep[i].sig == sig {
					return true
				}
			}
			return false
		}
		idx := len(ex.decisionsX)
		k := -1
		frontier := false
		if d, ok := ex.nextDecision(); ok {
			if d.kind != dSched || int(d.val) >= len(trs) {
				ex.internal("replay divergence at scheduling point")
			}
			k = int(d.val)
			frontier = idx == len(ex.prefix)-1
		} else {
			frontier = true
			for i := range trs {
				if !por || !asleep(trs[i].desc) {
					k = i
					break
				}
			}
			if k < 0 {
				ex.sleepBlocked++
				panic(&pathAbort{Reason: "redundant interleaving (sleep set)"})
			}
		}
		ex.logDecision(decision{dSched, int64(k)})
		tr := trs[k]
		ent := sleepEntry{sig: tr.desc, threads: tr.threadIDs(), chans: tr.chanIDs()}
		ndec := len(ex.decisionsX)
		ex.fpOn, ex.fpMark, ex.fpR, ex.fpW = true, ex.nobj, map[int]bool{}, map[int]bool{}
		ex.fire(tr)
		ex.fpOn = false
		ent.r, ent.w = ex.fpR, ex.fpW
		if len(ex.decisionsX) != ndec {
			ent.wild = true
		}
		pre := ex.preAt[idx]
		if frontier && ex.exp != nil {
			// hand the next awake sibling to another worker, telling it what has been explored here
			next := -1
			for i := k + 1; i < len(trs); i++ {
				if !por || !asleep(trs[i].desc) {
					next = i
					break
				}
			}
			if next >= 0 {
				np := make(map[int][]sleepEntry, len(ex.preAt)+1)
				for a, b := range ex.preAt {
					if a < idx {
						np[a] = b
					}
				}
				lst := make([]sleepEntry, 0, len(pre)+1)
				lst = append(lst, pre...)
				lst = append(lst, ent)
				np[idx] = lst
				p := make([]decision, idx+1)
				copy(p, ex.decisionsX[:idx])
				p[idx] = decision{dSched, int64(next)}
				ex.exp.push(&job{prefix: p, pre: np})
			}
		}
		if por {
			var ns []sleepEntry
			for i := range ex.sleep {
				if independent(&ex.sleep[i], &ent) {
					ns = append(ns, ex.sleep[i])
				}
			}
			for i := range pre {
				if independent(&pre[i], &ent) {
					ns = append(ns, pre[i])
				}
			}
			ex.sleep = ns
		}
	}
	if steps > ex.maxSched {
		ex.maxSched = steps
	}
	n := 0
	for _, t := range ex.threads {
		if !t.done {
			n++
		}
	}
	return n
}

// thread-aware channel operations (called from the interpreter when running inside a thread)

func (ex *Exec) tSend(c *ChanVal, v Value) {
	ex.park(&pendingOp{kind: opSend, ch: c, val: v})
}

func (ex *Exec) tRecv(c *ChanVal) (Value, bool) {
	op := &pendingOp{kind: opRecv, ch: c}
	ex.park(op)
	return op.resVal, op.resOk
}

// tLock: acquiring a mutex is a scheduling point of an interpreted thread (it blocks while
// the mutex is not available). Releasing is not: it can only enable others.
func (ex *Exec) tLock(mu *Object, mode int) bool {
	op := &pendingOp{kind: opLock, mu: mu, lockMode: mode}
	ex.park(op)
	if ex.fpOn {
		ex.fpW[mu.ID] = true
	}
	return op.resOk
}

func (ex *Exec) tClose(c *ChanVal) {
	ex.park(&pendingOp{kind: opClose, ch: c})
}

func (ex *Exec) tSelect(fr *frame, in *ssa.Select) Value {
	op := &pendingOp{kind: opSelect, blocking: in.Blocking}
	for _, st := range in.States {
		c := selCase{ch: ex.get(fr, st.Chan).(*ChanVal), send: st.Dir == types.SendOnly}
		if c.send {
			c.val = ex.get(fr, st.Send)
		}
		op.cases = append(op.cases, c)
	}
	ex.park(op)
	tt := in.Type().(*types.Tuple)
	res := make(Tuple, tt.Len())
	for i := 2; i < tt.Len(); i++ {
		res[i] = Zero(tt.At(i).Type())
	}
	res[0] = BV(uint64(int64(op.selIdx)), 64)
	res[1] = Bool(op.resOk)
	if op.selIdx >= 0 && !op.cases[op.selIdx].send {
		k := 2
		for i := 0; i < op.selIdx; i++ {
			if !op.cases[i].send {
				k++
			}
		}
		if k < len(res) && op.resVal != nil {
			res[k] = op.resVal
		}
	}
	return res
}
