package sym

import (
	"math"
	"go/types"
	"net/textproto"
	"strings"

	"golang.org/x/tools/go/ssa"
)

// StubList is reported in the evidence of every check.
var StubList = []string{
	"internal/bytealg.{IndexByteString,IndexByte,CountString,MakeNoZero,IndexString}: exact semantics on symbolic byte vectors (first-match search forks per position)",
	"unsafe.{String,StringData,Slice,SliceData}: snapshot/alias on the executor's array objects",
	"fmt.{Errorf,Sprintf,Sprint,Sprintln}: opaque message; %w operands kept so errors.Is/Unwrap see the chain",
	"errors.Is: native walk over Is/Unwrap methods (no reflectlite)",
	"internal/abi.NoEscape, internal/race.*, internal/godebug: identity / no-op",
	"sync.{Mutex,RWMutex}: lock counters (unlock of unlocked = Go panic), TryLock succeeds iff free; sync.Once: runs the closure once; sync.Pool: Get returns the most recently Put object, else New(); sequential semantics",
	"time.{Now,Since,NewTimer,Unix,UnixMilli} and time.Time.{Add,Sub,After,Before,Equal,IsZero,Compare,Unix,UnixMilli,UnixMicro,UnixNano}: an instant is one 64-bit nanosecond count",
	"time.Duration.Milliseconds: executed from SSA (signed division by 1e6)",
	"math/rand.{New,NewSource,(*Rand).Float64}: arbitrary float in [0,1)",
	"net/textproto.CanonicalMIMEHeaderKey: native on concrete keys",
	"net/http.Error(w, msg, code): w.WriteHeader(code) then w.Write(msg+LF) (header tweaks of the real function omitted)",
	"encoding/json.Unmarshal(verifJSONDoc(s), &string): yields s or an arbitrary error",
	"utf8 decoding in range-over-string: exact for ASCII lead bytes, over-approximated (arbitrary rune >= 0x80, width 1..4) otherwise",
}

func (p *Program) findType(pkgPath, name string) types.Type {
	for _, pk := range p.Prog.AllPackages() {
		if pk.Pkg.Path() == pkgPath {
			if o := pk.Pkg.Scope().Lookup(name); o != nil {
				return o.Type()
			}
		}
	}
	return nil
}

func (p *Program) stub(name string, f func(ex *Exec, args []Value) Value) {
	p.intercepts[name] = func(ex *Exec, caller *frame, fn *ssa.Function, args []Value) Value { return f(ex, args) }
}

func (ex *Exec) indexByte(b []*Term, c *Term) Value {
	for i := range b {
		if ex.Branch(Eq(b[i], c)) {
			return BV(uint64(i), 64)
		}
	}
	return BV(^uint64(0), 64)
}

func (ex *Exec) sliceBytes(s SliceVal) []*Term {
	el := ex.sliceElems(s)
	b := make([]*Term, len(el))
	for i := range el {
		b[i] = el[i].(*Term)
	}
	return b
}

// ErrorsIs implements errors.Is on executor values.
func (ex *Exec) ErrorsIs(err, target IfaceVal) bool {
	errorIface := types.Universe.Lookup("error").Type()
	for depth := 0; depth < 32; depth++ {
		if err.T == nil {
			return target.T == nil
		}
		if target.T != nil && types.Comparable(target.T) && types.Identical(err.T, target.T) {
			if ex.Branch(ex.valuesEqual(err, target, errorIface)) {
				return true
			}
		}
		ms := ex.P.Prog.MethodSets.MethodSet(err.T)
		if sel := ms.Lookup(nil, "Is"); sel != nil {
			if sig := sel.Type().(*types.Signature); sig.Params().Len() == 1 && sig.Results().Len() == 1 {
				fn := ex.P.Prog.MethodValue(sel)
				r := ex.callFunction(ex.curFrame, fn, []Value{err.V, target}, nil, nil)
				if ex.Branch(r.(*Term)) {
					return true
				}
			}
		}
		sel := ms.Lookup(nil, "Unwrap")
		if sel == nil {
			// unexported-package lookup needs the package for unexported names only
			return false
		}
		sig := sel.Type().(*types.Signature)
		if sig.Params().Len() != 0 || sig.Results().Len() != 1 {
			return false
		}
		fn := ex.P.Prog.MethodValue(sel)
		r := ex.callFunction(ex.curFrame, fn, []Value{err.V}, nil, nil)
		switch rv := r.(type) {
		case IfaceVal:
			err = rv
		case SliceVal:
			for _, e := range ex.sliceElems(rv) {
				if ex.ErrorsIs(e.(IfaceVal), target) {
					return true
				}
			}
			return false
		default:
			return false
		}
	}
	ex.internal("errors.Is: chain too long")
	return false
}

// InvokeMethod calls the method `name` of the dynamic value of an interface.
func (ex *Exec) InvokeMethod(recv IfaceVal, name string, args ...Value) Value {
	if recv.T == nil {
		ex.goPanicf("invalid memory address or nil pointer dereference (method %s on nil interface)", name)
	}
	sel := ex.P.Prog.MethodSets.MethodSet(recv.T).Lookup(nil, name)
	if sel == nil {
		ex.internal("no exported method %s on %s", name, recv.T)
	}
	fn := ex.P.Prog.MethodValue(sel)
	return ex.callFunction(ex.curFrame, fn, append([]Value{recv.V}, args...), nil, nil)
}

func registerStubs(p *Program) {
	p.stub("internal/bytealg.IndexByteString", func(ex *Exec, a []Value) Value {
		return ex.indexByte(a[0].(*StrVal).B, a[1].(*Term))
	})
	p.stub("internal/bytealg.IndexByte", func(ex *Exec, a []Value) Value {
		return ex.indexByte(ex.sliceBytes(a[0].(SliceVal)), a[1].(*Term))
	})
	p.stub("internal/bytealg.CountString", func(ex *Exec, a []Value) Value {
		n := BV(0, 64)
		for _, b := range a[0].(*StrVal).B {
			n = Bin(OAdd, n, Ite(Eq(b, a[1].(*Term)), BV(1, 64), BV(0, 64)))
		}
		return n
	})
	// substring search with a concrete-length pattern: first match, forking per position
	indexOf := func(ex *Exec, hay, pat []*Term) Value {
		if len(pat) == 0 {
			return BV(0, 64)
		}
		for i := 0; i+len(pat) <= len(hay); i++ {
			m := True
			for k := range pat {
				m = And(m, Eq(hay[i+k], pat[k]))
			}
			if ex.Branch(m) {
				return BV(uint64(i), 64)
			}
		}
		return BV(^uint64(0), 64)
	}
	p.stub("internal/bytealg.IndexString", func(ex *Exec, a []Value) Value {
		return indexOf(ex, a[0].(*StrVal).B, a[1].(*StrVal).B)
	})
	p.stub("internal/bytealg.Index", func(ex *Exec, a []Value) Value {
		return indexOf(ex, ex.sliceBytes(a[0].(SliceVal)), ex.sliceBytes(a[1].(SliceVal)))
	})
	p.stub("strings.Index", func(ex *Exec, a []Value) Value {
		return indexOf(ex, a[0].(*StrVal).B, a[1].(*StrVal).B)
	})
	p.stub("strings.Contains", func(ex *Exec, a []Value) Value {
		r := indexOf(ex, a[0].(*StrVal).B, a[1].(*StrVal).B).(*Term)
		return Bool(r.SInt() >= 0)
	})
	p.stub("bytes.Index", func(ex *Exec, a []Value) Value {
		return indexOf(ex, ex.sliceBytes(a[0].(SliceVal)), ex.sliceBytes(a[1].(SliceVal)))
	})
	p.stub("bytes.Contains", func(ex *Exec, a []Value) Value {
		r := indexOf(ex, ex.sliceBytes(a[0].(SliceVal)), ex.sliceBytes(a[1].(SliceVal))).(*Term)
		return Bool(r.SInt() >= 0)
	})
	// io.Copy / io.CopyN: read from src in 512-byte pieces and write to dst
	ioCopy := func(ex *Exec, dst, src IfaceVal, limit int64) Value {
		var total int64
		var errv Value = IfaceVal{}
		for iter := 0; iter < 4096; iter++ {
			n := int64(512)
			if limit >= 0 && limit-total < n {
				n = limit - total
			}
			if n == 0 {
				break
			}
			buf := ex.newSlice(types.Typ[types.Uint8], nil, int(n))
			buf.Len = int(n)
			res := ex.InvokeMethod(src, "Read", buf).(Tuple)
			got := ex.Concretize(res[0].(*Term))
			if got > 0 {
				part := SliceVal{Arr: buf.Arr, Off: buf.Off, Len: int(got), Cap: int(got), Pre: buf.Pre}
				if dst.T != nil && dst.T.String() != "io.discard" {
					wres := ex.InvokeMethod(dst, "Write", part).(Tuple)
					if e := wres[1].(IfaceVal); e.T != nil {
						errv = e
						total += got
						break
					}
				}
				total += got
			}
			if e := res[1].(IfaceVal); e.T != nil {
				if !ex.ErrorsIs(e, ex.load(Ptr{Obj: ex.P.globalByName("io.EOF")}).(IfaceVal)) {
					errv = e
				} else if limit >= 0 && total < limit {
					errv = e // CopyN reports EOF when fewer than n bytes were available
				}
				break
			}
		}
		return Tuple{BV(uint64(total), 64), errv}
	}
	p.stub("io.Copy", func(ex *Exec, a []Value) Value { return ioCopy(ex, a[0].(IfaceVal), a[1].(IfaceVal), -1) })
	p.stub("io.CopyN", func(ex *Exec, a []Value) Value {
		return ioCopy(ex, a[0].(IfaceVal), a[1].(IfaceVal), ex.Concretize(a[2].(*Term)))
	})
	p.stub("internal/bytealg.MakeNoZero", func(ex *Exec, a []Value) Value {
		n := int(ex.Concretize(a[0].(*Term)))
		s := ex.newSlice(types.Typ[types.Uint8], nil, n)
		s.Len = n
		return s
	})
	p.stub("internal/abi.NoEscape", func(ex *Exec, a []Value) Value { return a[0] })
	p.stub("internal/abi.Escape", func(ex *Exec, a []Value) Value { return a[0] })
	for _, n := range []string{"Acquire", "Release", "ReleaseMerge", "Disable", "Enable", "Read", "Write", "ReadRange", "WriteRange", "Errors"} {
		p.stub("internal/race."+n, func(ex *Exec, a []Value) Value { return nil })
	}
	p.stub("errors.Is", func(ex *Exec, a []Value) Value {
		return Bool(ex.ErrorsIs(a[0].(IfaceVal), a[1].(IfaceVal)))
	})

	// fmt: opaque messages
	wrapErr := p.findType("fmt", "wrapError")
	errString := p.findType("errors", "errorString")
	mkFmtErr := func(ex *Exec, format string, args SliceVal) Value {
		var wrapped Value
		if i := strings.Index(format, "%w"); i >= 0 {
			// which operand? count verbs before it
			k := strings.Count(strings.ReplaceAll(format[:i], "%%", ""), "%")
			el := ex.sliceElems(args)
			if k < len(el) {
				wrapped = el[k]
			}
		}
		msg := MkStr("<" + format + ">")
		if wrapped != nil && wrapErr != nil {
			if w, ok := wrapped.(IfaceVal); ok && w.T != nil && types.Implements(w.T, types.Universe.Lookup("error").Type().Underlying().(*types.Interface)) {
				obj := ex.newObject(wrapErr, &StructVal{F: []Value{msg, w}})
				return IfaceVal{T: types.NewPointer(wrapErr), V: Ptr{Obj: obj}}
			}
		}
		obj := ex.newObject(errString, &StructVal{F: []Value{msg}})
		return IfaceVal{T: types.NewPointer(errString), V: Ptr{Obj: obj}}
	}
	p.stub("fmt.Errorf", func(ex *Exec, a []Value) Value {
		f, ok := a[0].(*StrVal).Concrete()
		if !ok {
			f = "?"
		}
		return mkFmtErr(ex, f, a[1].(SliceVal))
	})
	for _, n := range []string{"fmt.Sprintf", "fmt.Sprint", "fmt.Sprintln"} {
		n := n
		p.stub(n, func(ex *Exec, a []Value) Value { return MkStr("<" + n + ">") })
	}

	// encoding/json: only documents made by verifJSONDoc are understood
	p.stub("encoding/json.Unmarshal", func(ex *Exec, a []Value) Value {
		data := a[0].(SliceVal)
		if doc, ok := ex.natState["jsondoc"].(*Object); !ok || data.Arr != doc {
			ex.internal("json.Unmarshal on a document not produced by verifJSONDoc")
		}
		if ex.Choose("json.fails", 2) == 1 {
			return mkFmtErr(ex, "json: cannot decode", SliceVal{})
		}
		dst := a[1].(IfaceVal).V.(Ptr)
		ex.store(dst, ex.natState["jsonstr"])
		return IfaceVal{}
	})
	// net/textproto
	p.stub("net/textproto.CanonicalMIMEHeaderKey", func(ex *Exec, a []Value) Value {
		s, ok := a[0].(*StrVal).Concrete()
		if !ok {
			ex.internal("CanonicalMIMEHeaderKey on symbolic key")
		}
		return MkStr(textproto.CanonicalMIMEHeaderKey(s))
	})

	// reflectlite is only touched by errors.init (errorType); give it an opaque type value
	opaque := types.NewNamed(types.NewTypeName(0, nil, "verif.opaqueReflectType", nil), types.Typ[types.Int], nil)
	p.stub("internal/reflectlite.TypeOf", func(ex *Exec, a []Value) Value { return IfaceVal{T: opaque, V: BV(0, 64)} })
	p.nativeMethods[nativeKey{opaque.String(), "Elem"}] = func(ex *Exec, recv IfaceVal, args []Value) Value { return recv }

	// net/http.Error: recorded through the writer's own WriteHeader and Write
	p.stub("net/http.Error", func(ex *Exec, a []Value) Value {
		w := a[0].(IfaceVal)
		ex.InvokeMethod(w, "WriteHeader", a[2])
		msg := a[1].(*StrVal)
		nb := append(append([]*Term{}, msg.B...), BV('\n', 8))
		ex.InvokeMethod(w, "Write", ex.bytesToSlice(nb))
		return nil
	})

	registerSyncStubs(p)
	registerTimeStubs(p)
	registerNetStubs(p)
}

func registerSyncStubs(p *Program) {
	lockObj := func(ex *Exec, v Value) *Object {
		ptr := v.(Ptr)
		if ptr.Obj == nil {
			ex.goPanicf("nil mutex")
		}
		if len(ptr.Path) == 0 {
			return ptr.Obj
		}
		// mutex embedded in a struct: key by object + path via a side table
		key := ptr.Obj
		// derive a stable pseudo-object per (object,path)
		k := showValue(ptr)
		if o, ok := ex.natState["mutex:"+k].(*Object); ok {
			return o
		}
		o := &Object{ID: key.ID, Note: "mutex " + k}
		ex.natState["mutex:"+k] = o
		return o
	}
	// state: 0 unlocked, -1 write-locked, n>0 read-locked n times
	p.stub("(*sync.Mutex).Lock", func(ex *Exec, a []Value) Value {
		o := lockObj(ex, a[0])
		if ex.curThread != nil && ex.params()["LOCKSCHED"] == 1 {
			ex.tLock(o, lmLock)
			return nil
		}
		if ex.mutexState[o] != 0 {
			ex.internal("sync.Mutex.Lock would block forever (self-deadlock) in sequential executor")
		}
		ex.mutexState[o] = -1
		return nil
	})
	p.stub("(*sync.Mutex).Unlock", func(ex *Exec, a []Value) Value {
		o := lockObj(ex, a[0])
		if ex.fpOn {
			ex.fpW[o.ID] = true // releasing changes what other threads may do next (interleaving reduction)
		}
		if ex.mutexState[o] != -1 {
			panic(&goPanic{Val: IfaceVal{T: types.Typ[types.String], V: MkStr("sync: unlock of unlocked mutex")}, Msg: "fatal error: sync: unlock of unlocked mutex"})
		}
		ex.mutexState[o] = 0
		return nil
	})
	p.stub("(*sync.Mutex).TryLock", func(ex *Exec, a []Value) Value {
		o := lockObj(ex, a[0])
		if ex.curThread != nil && ex.params()["LOCKSCHED"] == 1 {
			return Bool(ex.tLock(o, lmTryLock))
		}
		if ex.mutexState[o] != 0 {
			return False
		}
		ex.mutexState[o] = -1
		return True
	})
	p.stub("(*sync.RWMutex).Lock", func(ex *Exec, a []Value) Value {
		o := lockObj(ex, a[0])
		if ex.curThread != nil && ex.params()["LOCKSCHED"] == 1 {
			ex.tLock(o, lmLock)
			return nil
		}
		if ex.mutexState[o] != 0 {
			ex.internal("sync.RWMutex.Lock would block forever (self-deadlock) in sequential executor")
		}
		ex.mutexState[o] = -1
		return nil
	})
	p.stub("(*sync.RWMutex).Unlock", func(ex *Exec, a []Value) Value {
		o := lockObj(ex, a[0])
		if ex.fpOn {
			ex.fpW[o.ID] = true // releasing changes what other threads may do next (interleaving reduction)
		}
		if ex.mutexState[o] != -1 {
			panic(&goPanic{Val: IfaceVal{T: types.Typ[types.String], V: MkStr("sync: Unlock of unlocked RWMutex")}, Msg: "fatal error: sync: Unlock of unlocked RWMutex"})
		}
		ex.mutexState[o] = 0
		return nil
	})
	p.stub("(*sync.RWMutex).RLock", func(ex *Exec, a []Value) Value {
		o := lockObj(ex, a[0])
		if ex.curThread != nil && ex.params()["LOCKSCHED"] == 1 {
			ex.tLock(o, lmRLock)
			return nil
		}
		if ex.mutexState[o] < 0 {
			ex.internal("sync.RWMutex.RLock would block forever (self-deadlock) in sequential executor")
		}
		ex.mutexState[o]++
		return nil
	})
	p.stub("(*sync.RWMutex).RUnlock", func(ex *Exec, a []Value) Value {
		o := lockObj(ex, a[0])
		if ex.fpOn {
			ex.fpW[o.ID] = true // releasing changes what other threads may do next (interleaving reduction)
		}
		if ex.mutexState[o] <= 0 {
			panic(&goPanic{Val: IfaceVal{T: types.Typ[types.String], V: MkStr("sync: RUnlock of unlocked RWMutex")}, Msg: "fatal error: sync: RUnlock of unlocked RWMutex"})
		}
		ex.mutexState[o]--
		return nil
	})
	p.stub("(*sync.RWMutex).TryLock", func(ex *Exec, a []Value) Value {
		o := lockObj(ex, a[0])
		if ex.curThread != nil && ex.params()["LOCKSCHED"] == 1 {
			return Bool(ex.tLock(o, lmTryLock))
		}
		if ex.mutexState[o] != 0 {
			return False
		}
		ex.mutexState[o] = -1
		return True
	})
	p.stub("(*sync.RWMutex).TryRLock", func(ex *Exec, a []Value) Value {
		o := lockObj(ex, a[0])
		if ex.curThread != nil && ex.params()["LOCKSCHED"] == 1 {
			return Bool(ex.tLock(o, lmTryRLock))
		}
		if ex.mutexState[o] < 0 {
			return False
		}
		ex.mutexState[o]++
		return True
	})
	// sync.Pool, sequential semantics: Get hands back the most recently Put object (what
	// the per-P private slot does when no GC intervenes), else New(), else nil
	poolKey := func(ex *Exec, v Value) string { return "pool:" + showValue(v.(Ptr)) }
	p.stub("(*sync.Pool).Put", func(ex *Exec, a []Value) Value {
		if iv, ok := a[1].(IfaceVal); ok && iv.T == nil {
			return nil
		}
		k := poolKey(ex, a[0])
		l, _ := ex.natState[k].([]Value)
		ex.natState[k] = append(append([]Value{}, l...), a[1])
		return nil
	})
	p.stub("(*sync.Pool).Get", func(ex *Exec, a []Value) Value {
		k := poolKey(ex, a[0])
		if l, _ := ex.natState[k].([]Value); len(l) > 0 {
			ex.natState[k] = append([]Value{}, l[:len(l)-1]...)
			return l[len(l)-1]
		}
		ptr := a[0].(Ptr)
		var st *types.Struct
		if sp := ex.P.Prog.ImportedPackage("sync"); sp != nil {
			if t := sp.Type("Pool"); t != nil {
				st, _ = t.Type().Underlying().(*types.Struct)
			}
		}
		if st == nil {
			ex.internal("sync.Pool type not found")
		}
		for i := 0; i < st.NumFields(); i++ {
			if st.Field(i).Name() == "New" {
				fn := ex.load(Ptr{Obj: ptr.Obj, Path: append(append([]int{}, ptr.Path...), i)})
				if c, ok := fn.(*Closure); ok && c != nil {
					return ex.callValue(ex.curFrame, fn, nil, nil)
				}
			}
		}
		return IfaceVal{}
	})
	p.stub("(*sync.Once).Do", func(ex *Exec, a []Value) Value {
		ptr := a[0].(Ptr)
		k := "once:" + showValue(ptr)
		if done, _ := ex.natState[k].(bool); done {
			return nil
		}
		ex.natState[k] = true
		ex.callValue(ex.curFrame, a[1], nil, nil)
		return nil
	})
}

// MutexHeld reports the executor's lock state for the mutex at p (verif lock discipline).
func (ex *Exec) mutexHeld(p Ptr) int {
	if len(p.Path) == 0 {
		return ex.mutexState[p.Obj]
	}
	if o, ok := ex.natState["mutex:"+showValue(p)].(*Object); ok {
		return ex.mutexState[o]
	}
	return 0
}

func registerTimeStubs(p *Program) {
	ns := func(v Value) *Term { return v.(*StructVal).F[1].(*Term) }
	p.stub("time.Now", func(ex *Exec, a []Value) Value {
		// non-decreasing clock: each call returns a fresh instant >= the previous one
		v := ex.freshVar("time.Now", 64)
		ex.recNondet("time.Now", "int", 64, v)
		lo := BV(1, 64)
		if prev, ok := ex.natState["time.last"].(*Term); ok {
			lo = prev
		}
		ex.Assume(And(Cmp(OSLe, lo, v), Cmp(OSLt, v, BV(1<<61, 64))))
		ex.natState["time.last"] = v
		return ex.mkTime(v)
	})
	p.stub("time.Since", func(ex *Exec, a []Value) Value {
		v := ex.freshVar("time.Now", 64)
		ex.recNondet("time.Now", "int", 64, v)
		lo := BV(1, 64)
		if prev, ok := ex.natState["time.last"].(*Term); ok {
			lo = prev
		}
		ex.Assume(And(Cmp(OSLe, lo, v), Cmp(OSLt, v, BV(1<<61, 64))))
		ex.natState["time.last"] = v
		return Bin(OSub, v, ns(a[0]))
	})
	p.stub("(time.Time).Add", func(ex *Exec, a []Value) Value { return ex.mkTime(Bin(OAdd, ns(a[0]), a[1].(*Term))) })
	p.stub("(time.Time).Sub", func(ex *Exec, a []Value) Value { return Bin(OSub, ns(a[0]), ns(a[1])) })
	p.stub("(time.Time).After", func(ex *Exec, a []Value) Value { return Cmp(OSLt, ns(a[1]), ns(a[0])) })
	p.stub("(time.Time).Before", func(ex *Exec, a []Value) Value { return Cmp(OSLt, ns(a[0]), ns(a[1])) })
	p.stub("(time.Time).Equal", func(ex *Exec, a []Value) Value { return Eq(ns(a[0]), ns(a[1])) })
	p.stub("(time.Time).IsZero", func(ex *Exec, a []Value) Value { return Eq(ns(a[0]), BV(0, 64)) })
	p.stub("(time.Time).UnixNano", func(ex *Exec, a []Value) Value { return ns(a[0]) })
	// conversions between the instant and Unix units (instants of the scenarios are non-negative)
	p.stub("time.Unix", func(ex *Exec, a []Value) Value {
		return ex.mkTime(Bin(OAdd, Bin(OMul, a[0].(*Term), BV(1000000000, 64)), a[1].(*Term)))
	})
	p.stub("time.UnixMilli", func(ex *Exec, a []Value) Value { return ex.mkTime(Bin(OMul, a[0].(*Term), BV(1000000, 64))) })
	p.stub("(time.Time).Unix", func(ex *Exec, a []Value) Value { return Bin(OSDiv, ns(a[0]), BV(1000000000, 64)) })
	p.stub("(time.Time).UnixMilli", func(ex *Exec, a []Value) Value { return Bin(OSDiv, ns(a[0]), BV(1000000, 64)) })
	p.stub("(time.Time).UnixMicro", func(ex *Exec, a []Value) Value { return Bin(OSDiv, ns(a[0]), BV(1000, 64)) })
	p.stub("(time.Time).Compare", func(ex *Exec, a []Value) Value {
		x, y := ns(a[0]), ns(a[1])
		return Ite(Cmp(OSLt, x, y), BV(^uint64(0), 64), Ite(Eq(x, y), BV(0, 64), BV(1, 64)))
	})
}

func structFieldIndex(t types.Type, name string) int {
	st := t.Underlying().(*types.Struct)
	for i := 0; i < st.NumFields(); i++ {
		if st.Field(i).Name() == name {
			return i
		}
	}
	return -1
}

// ErrorsAs implements errors.As on executor values.
func (ex *Exec) ErrorsAs(err IfaceVal, target IfaceVal) bool {
	if target.T == nil {
		ex.goPanicf("errors: target cannot be nil")
	}
	tt := deref(target.T)
	dst := target.V.(Ptr)
	for depth := 0; depth < 32; depth++ {
		if err.T == nil {
			return false
		}
		if it, ok := tt.Underlying().(*types.Interface); ok {
			if types.Implements(err.T, it) {
				ex.store(dst, err)
				return true
			}
		} else if types.Identical(err.T, tt) {
			ex.store(dst, err.V)
			return true
		}
		ms := ex.P.Prog.MethodSets.MethodSet(err.T)
		sel := ms.Lookup(nil, "Unwrap")
		if sel == nil {
			return false
		}
		sig := sel.Type().(*types.Signature)
		if sig.Params().Len() != 0 || sig.Results().Len() != 1 {
			return false
		}
		r := ex.callFunction(ex.curFrame, ex.P.Prog.MethodValue(sel), []Value{err.V}, nil, nil)
		next, ok := r.(IfaceVal)
		if !ok {
			return false
		}
		err = next
	}
	return false
}

func registerNetStubs(p *Program) {
	p.stub("errors.As", func(ex *Exec, a []Value) Value {
		return Bool(ex.ErrorsAs(a[0].(IfaceVal), a[1].(IfaceVal)))
	})
	clientT := p.findType("net/http", "Client")
	urlErrT := p.findType("net/url", "Error")
	p.stub("(*net/http.Client).Do", func(ex *Exec, a []Value) Value {
		cv := ex.load(a[0].(Ptr)).(*StructVal)
		tr := cv.F[structFieldIndex(clientT, "Transport")].(IfaceVal)
		if tr.T == nil {
			ex.internal("http.Client.Do with the default transport is outside the model")
		}
		res := ex.InvokeMethod(tr, "RoundTrip", a[1]).(Tuple)
		if e := res[1].(IfaceVal); e.T != nil {
			obj := ex.newObject(urlErrT, &StructVal{F: []Value{MkStr("Get"), MkStr(""), e}})
			return Tuple{Ptr{}, IfaceVal{T: types.NewPointer(urlErrT), V: Ptr{Obj: obj}}}
		}
		return Tuple{res[0], IfaceVal{}}
	})
	// timers fire as soon as they are armed (unless verifTimerHold was called); the durations they are reset to are recorded
	timerT := p.findType("time", "Timer")
	timeT := p.findType("time", "Time")
	fill := func(ex *Exec, ch *ChanVal) {
		if held, _ := ex.natState["timer.hold"].(bool); held {
			return // verifTimerHold: from now on armed timers do not fire within the scenario
		}
		if len(ch.Buf) == 0 {
			ch.Buf = append(ch.Buf, Zero(timeT))
		}
	}
	p.stub("time.NewTimer", func(ex *Exec, a []Value) Value {
		ex.nobj++
		ch := &ChanVal{ID: ex.nobj, Cap: 1, Elem: timeT}
		fill(ex, ch)
		sv := Zero(timerT).(*StructVal)
		f := append([]Value{}, sv.F...)
		f[structFieldIndex(timerT, "C")] = ch
		return Ptr{Obj: ex.newObject(timerT, &StructVal{F: f})}
	})
	p.stub("(*time.Timer).Reset", func(ex *Exec, a []Value) Value {
		tv := ex.load(a[0].(Ptr)).(*StructVal)
		fill(ex, tv.F[structFieldIndex(timerT, "C")].(*ChanVal))
		resets, _ := ex.natState["timer.resets"].([]*Term)
		ex.natState["timer.resets"] = append(resets, a[1].(*Term))
		return True
	})
	p.stub("(*time.Timer).Stop", func(ex *Exec, a []Value) Value { return True })
	// math/rand: an arbitrary float in [0,1)
	randT := p.findType("math/rand", "Rand")
	p.stub("math/rand.NewSource", func(ex *Exec, a []Value) Value { return IfaceVal{} })
	p.stub("math/rand.New", func(ex *Exec, a []Value) Value {
		return Ptr{Obj: ex.newObject(randT, Zero(randT))}
	})
	p.stub("(*math/rand.Rand).Float64", func(ex *Exec, a []Value) Value {
		if ex.params()["RANDEXTREMES"] == 1 {
			// the draw is one of the two extremes of [0,1) or the midpoint (forked choice)
			vals := []float64{0, 0.5, math.Nextafter(1, 0)}
			i := ex.Choose("rand.Float64", len(vals))
			return F64(vals[i])
		}
		v := ex.freshFloat("rand.Float64")
		ex.recNondet("rand.Float64", "float", 64, v)
		ex.Assume(And(FBin(OFLe, F64(0), v), FBin(OFLt, v, F64(1))))
		return v
	})
}
