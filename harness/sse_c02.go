package sse

import (
	"bytes"
	"errors"
	"strings"
	"time"
)

// C02 / C15 — messages built through the public API, their wire form, decoding.

type vhChunkSpec struct {
	content   string
	isComment bool
}

type vhBuilt struct {
	m      *Message
	chunks []vhChunkSpec // expected ordered (content, isComment) lines
	id     string
	idSet  bool
	typ    string
	typSet bool
	retry  time.Duration
}

func vhHasNUL(s string) bool {
	r := false
	for i := 0; i < len(s); i++ {
		r = verifOr(r, s[i] == 0)
	}
	return r
}

// vhBuildMessage builds a message through the public API only.
func vhBuildMessage(tag string, maxCalls, maxLen int, retryMode int) vhBuilt {
	b := vhBuilt{m: &Message{}}
	ncalls := verifChoose(tag+".ncalls", maxCalls+1)
	for i := 0; i < ncalls; i++ {
		s := verifNondetString(tag+".s", maxLen)
		isComment := verifChoose(tag+".iscomment", 2) == 1
		if isComment {
			b.m.AppendComment(s)
		} else {
			b.m.AppendData(s)
		}
		for _, l := range vhSpecLines(s) {
			b.chunks = append(b.chunks, vhChunkSpec{content: l, isComment: isComment})
		}
	}
	if verifChoose(tag+".hasid", 2) == 1 {
		s := verifNondetString(tag+".id", maxLen)
		id, err := NewID(s)
		verifAssert((err == nil) == !vhHasNL(s), "C02/NewID-accepts-exactly-single-line")
		if err == nil {
			b.m.ID = id
			b.id, b.idSet = s, true
		}
	}
	if verifChoose(tag+".hastype", 2) == 1 {
		s := verifNondetString(tag+".type", maxLen)
		ty, err := NewType(s)
		if err == nil {
			b.m.Type = ty
			b.typ, b.typSet = s, true
		}
	}
	switch retryMode {
	case 1: // small symbolic range around the millisecond boundary
		r := verifNondetInt64(tag + ".retry")
		verifAssume(r >= -int64(time.Millisecond) && r < int64(verifParam("RETRYMAX", 10000))*int64(time.Millisecond))
		b.retry = time.Duration(r)
	case 2: // boundary values
		b.retry = []time.Duration{0, -1, time.Millisecond - 1, time.Millisecond, 1<<63 - 1, -1 << 63}[verifChoose(tag+".retrysel", 6)]
	}
	b.m.Retry = b.retry
	return b
}

func (b *vhBuilt) dataLines() []string {
	var out []string
	for _, c := range b.chunks {
		if !c.isComment {
			out = append(out, c.content)
		}
	}
	return out
}

func (b *vhBuilt) hasAnyField() bool {
	return len(b.chunks) > 0 || b.idSet || b.typSet || b.retry.Milliseconds() > 0
}

// C02: what a conforming browser, and go-sse's own Read, decode from the concatenated wire forms.
func vhC02() {
	n := 1 + verifChoose("nmsgs", verifParam("MSGS", 2))
	var built []vhBuilt
	wire := ""
	for i := 0; i < n; i++ {
		b := vhBuildMessage("m", verifParam("CALLS", 2), verifParam("N", 2), verifParam("RETRY", 2))
		built = append(built, b)
		w := b.m.String()
		// lemma used for longer concatenations: every non-empty wire form ends with a blank line
		// and contains no other empty line
		if w != "" {
			verifAssert(len(w) >= 2 && w[len(w)-1] == '\n' && w[len(w)-2] == '\n' && w[0] != '\n', "C02/wire-ends-with-exactly-one-blank-line")
			inner, cr := false, false
			for i := 0; i+2 < len(w); i++ {
				inner = verifOr(inner, verifAnd(w[i] == '\n', w[i+1] == '\n'))
			}
			for i := 0; i < len(w); i++ {
				cr = verifOr(cr, w[i] == '\r')
			}
			verifAssert(!inner && !cr, "C02/wire-has-no-inner-blank-line-or-CR")
		} else {
			verifAssert(!b.hasAnyField(), "C02/empty-wire-only-for-empty-message")
		}
		wire += w
	}
	// expectations
	var wantStrict, wantRead []Event
	lastID := ""
	for _, b := range built {
		if b.idSet {
			// The property promises "the ID is the one set". An ID containing NUL is
			// accepted by NewID and written, but every conforming reader ignores it:
			// recorded as a known finding (predicate id-contains-nul).
			verifKnown("id-contains-nul", vhHasNUL(b.id))
			lastID = b.id
		}
		dl := b.dataLines()
		ev := Event{LastEventID: lastID, Type: b.typ, Data: strings.Join(dl, "\n")}
		if len(dl) > 0 {
			wantStrict = append(wantStrict, ev)
		}
		if len(dl) > 0 || b.typSet || b.idSet {
			wantRead = append(wantRead, ev)
		}
	}
	strict := vhSpecInterpretEx([]byte(wire), false, true, false, "")
	verifAssert(strict.end == vhEndClean, "C02/browser/stream-well-terminated")
	verifAssert(len(strict.events) == len(wantStrict), "C02/browser/one-event-per-message-with-data")
	verifAssert(vhEventsEqual(strict.events, wantStrict), "C02/browser/data-type-id-as-appended")

	o := vhRunRead(strings.NewReader(wire), nil, -1)
	verifAssert(o.err == nil, "C02/Read/no-error")
	verifAssert(len(o.events) == len(wantRead), "C02/Read/event-count")
	verifAssert(vhEventsEqual(o.events, wantRead), "C02/Read/data-type-id-as-appended")
	if len(wantStrict) > 0 {
		verifCover("C02/some-data-event")
	}
}

// C15: encoders agree; text round-trip.
func vhC15RoundTrip() {
	b := vhBuildMessage("m", verifParam("CALLS", 2), verifParam("N", 2), verifParam("RETRY", 1))
	if b.idSet {
		verifAssume(!vhHasNUL(b.id))
	}
	m := b.m
	text, err := m.MarshalText()
	verifAssert(err == nil, "C15/MarshalText-no-error")
	s := m.String()
	var buf bytes.Buffer
	n, werr := m.WriteTo(&buf)
	verifAssert(werr == nil && n == int64(buf.Len()), "C15/WriteTo-count-equals-bytes-written")
	verifAssert(string(text) == s && buf.String() == s, "C15/encoders-produce-identical-bytes")
	if !b.hasAnyField() {
		verifAssert(len(s) == 0 && n == 0, "C15/nothing-to-write-produces-nothing")
		verifCover("C15/empty-message")
		return
	}
	// the receiver is reused: whatever it held before must be overwritten
	m2 := Message{ID: ID("stale"), Type: Type("stale"), Retry: 42 * time.Second}
	m2.AppendData("stale")
	uerr := m2.UnmarshalText(text)
	verifAssert(uerr == nil, "C15/UnmarshalText-accepts-own-encoding")
	if uerr != nil {
		return
	}
	// the caller reuses its buffer afterwards: the decoded message must not depend on it
	for i := range text {
		text[i] = '#'
	}
	verifAssert(m2.ID.IsSet() == b.idSet && m2.ID.String() == b.id, "C15/roundtrip-id")
	verifAssert(m2.Type.IsSet() == b.typSet && m2.Type.String() == b.typ, "C15/roundtrip-type")
	wantRetry := time.Duration(0)
	if ms := b.retry.Milliseconds(); ms > 0 {
		wantRetry = time.Duration(ms) * time.Millisecond
	}
	verifAssert(m2.Retry == wantRetry, "C15/roundtrip-retry-to-the-millisecond")
	verifAssert(len(m2.chunks) == len(b.chunks), "C15/roundtrip-line-count")
	if len(m2.chunks) == len(b.chunks) {
		ok := true
		for i := range b.chunks {
			ok = verifAnd(ok, verifAnd(m2.chunks[i].content == b.chunks[i].content, m2.chunks[i].isComment == b.chunks[i].isComment))
		}
		verifAssert(ok, "C15/roundtrip-ordered-data-and-comment-lines")
	}
	verifCover("C15/roundtrip")
}

// C15: exact byte accounting with a writer that fails / stops accepting bytes.
var vhErrWrite = errors.New("verif: scripted write error")

type vhFaultWriter struct {
	full     string // the complete encoding, for the prefix check
	pos      int    // bytes accepted by complete Write calls
	total    int    // bytes accepted in all (pos + the short count of the failing call)
	calls    int
	failAt   int // index of the failing Write call (symbolic)
	short    int // bytes accepted by the failing call (symbolic, <= len(p))
	failed   bool
	after    int  // Write calls after the failing one
	mismatch bool // some Write was not the next piece of the encoding
}

func (w *vhFaultWriter) Write(p []byte) (int, error) {
	if w.failed {
		// the fault was transient: later writes would succeed - there must not be any
		w.after++
		return len(p), nil
	}
	if w.pos+len(p) > len(w.full) || string(p) != w.full[w.pos:w.pos+len(p)] {
		w.mismatch = true
	}
	i := w.calls
	w.calls++
	if i == w.failAt {
		verifAssume(w.short <= len(p))
		w.total = w.pos + w.short // the accepted bytes are p[:short], a prefix of this piece
		w.failed = true
		return w.short, vhErrWrite
	}
	w.pos += len(p)
	w.total = w.pos
	return len(p), nil
}

func vhC15Writer() {
	b := vhBuildMessage("m", verifParam("CALLS", 2), verifParam("N", 2), verifParam("RETRY", 2))
	full := b.m.String()
	w := &vhFaultWriter{full: full, failAt: verifNondetInt("failat", 0, 40), short: verifNondetInt("short", 0, 64)}
	n, err := b.m.WriteTo(w)
	verifAssert(n == int64(w.total), "C15/WriteTo-returns-exactly-the-accepted-byte-count")
	verifAssert(!w.mismatch && w.total <= len(full), "C15/accepted-bytes-are-a-prefix-of-the-encoding")
	if w.failed {
		verifAssert(err == vhErrWrite, "C15/WriteTo-returns-the-writer-error")
		verifAssert(w.after == 0, "C15/no-write-after-the-failing-one")
		verifCover("C15/writer-failed")
	} else {
		verifAssert(err == nil && w.total == len(full), "C15/no-failure-writes-everything")
	}
}

// C15/C02: the retry field alone, for every duration in the configured range:
// written as canonical decimal milliseconds iff >= 1ms, never overflowing the
// 13-digit buffer, and read back to the same millisecond count.
func vhC15Retry() {
	r := verifNondetInt64("retry")
	lo, hi := int64(verifParam("RLO", -1000000)), int64(verifParam("RHIMS", 100000))*int64(time.Millisecond)
	if verifParam("RFULL", 0) == 0 {
		verifAssume(r >= lo && r < hi)
	}
	m := &Message{Retry: time.Duration(r)}
	s := m.String() // an index out of range in the digit buffer would be reported as a Go panic
	ms := time.Duration(r).Milliseconds()
	if ms <= 0 {
		verifAssert(s == "", "C15/retry/sub-millisecond-not-written")
		return
	}
	verifAssert(len(s) > 9 && s[:7] == "retry: " && s[len(s)-2:] == "\n\n", "C15/retry/framing")
	if !(len(s) > 9) {
		return
	}
	digits := s[7 : len(s)-2]
	verifAssert(digits[0] != '0', "C15/retry/canonical-decimal-no-leading-zero")
	var v int64
	ok := true
	for i := 0; i < len(digits); i++ {
		ok = verifAnd(ok, verifAnd(digits[i] >= '0', digits[i] <= '9'))
		v = v*10 + int64(digits[i]-'0')
	}
	verifAssert(ok, "C15/retry/digits-only")
	verifAssert(v == ms, "C15/retry/decimal-value-is-the-millisecond-count")
	var m2 Message
	err := m2.UnmarshalText([]byte(s))
	verifAssert(err == nil && m2.Retry == time.Duration(ms)*time.Millisecond, "C15/retry/roundtrip-to-the-millisecond")
	verifCover("C15/retry/written")
}

// Long single lines (concrete lengths 0..LONGMAX): encoders agree, the line round-trips,
// the byte count is exact. Complements the symbolic short strings: buffer-size boundaries
// inside the encoder would show here.
func vhC15Long() {
	n := verifChoose("len", verifParam("LONGMAX", 300)+1)
	b := make([]byte, n)
	for i := range b {
		b[i] = 'a' + byte(i%26)
	}
	m := &Message{}
	isComment := verifChoose("iscomment", 2) == 1
	if isComment {
		m.AppendComment(string(b))
	} else {
		m.AppendData(string(b))
	}
	m.AppendData("tail")
	text, _ := m.MarshalText()
	var buf bytes.Buffer
	cnt, err := m.WriteTo(&buf)
	verifAssert(err == nil && cnt == int64(len(text)) && buf.String() == string(text) && m.String() == string(text), "C15/long/encoders-agree-and-count-is-exact")
	var m2 Message
	verifAssert(m2.UnmarshalText(text) == nil, "C15/long/decodes")
	want := 2
	if n == 0 {
		want = 1 // appending "" adds no line
	}
	verifAssert(len(m2.chunks) == want, "C15/long/line-count")
	if len(m2.chunks) == 2 {
		verifAssert(m2.chunks[0].content == string(b) && m2.chunks[0].isComment == isComment && m2.chunks[1].content == "tail", "C15/long/lines-intact")
	}
	o := vhRunRead(bytes.NewReader(text), nil, -1)
	if isComment || n == 0 {
		verifAssert(len(o.events) == 1 && o.events[0].Data == "tail", "C02/long/decoded-by-Read")
	} else {
		verifAssert(len(o.events) == 1 && o.events[0].Data == string(b)+"\ntail", "C02/long/decoded-by-Read")
	}
}

// C15: a writer that, inside one of its Write calls, encodes another message (a tee or
// logging writer; also what two goroutines encoding at the same time amount to at the
// granularity of Write calls). The encoders share no state: both outputs are exact.
type vhNestWriter struct {
	buf      []byte
	calls    int
	at       int
	inner    *Message
	innerOut bytes.Buffer
	innerN   int64
	innerErr error
	done     bool
}

func (w *vhNestWriter) Write(p []byte) (int, error) {
	if w.calls == w.at && !w.done {
		w.done = true
		w.innerN, w.innerErr = w.inner.WriteTo(&w.innerOut)
	}
	w.calls++
	w.buf = append(w.buf, p...)
	return len(p), nil
}

func vhC15Reentrant() {
	retries := []time.Duration{0, time.Millisecond, 1111 * time.Millisecond, 22 * time.Millisecond, 987654321 * time.Millisecond}
	mk := func(tag string) *Message {
		m := &Message{}
		if verifChoose(tag+".hasdata", 2) == 1 {
			m.AppendData(verifNondetString(tag+".data", 1))
		}
		if verifChoose(tag+".hasid", 2) == 1 {
			m.ID = ID("i" + tag)
		}
		m.Retry = retries[verifChoose(tag+".retry", len(retries))]
		return m
	}
	m1, m2 := mk("a"), mk("b")
	want1, want2 := m1.String(), m2.String()
	w := &vhNestWriter{at: verifChoose("at", 5), inner: m2}
	n, err := m1.WriteTo(w)
	verifAssert(err == nil && n == int64(len(want1)), "C15/nested/count")
	verifAssert(string(w.buf) == want1, "C15/nested/outer-encoding-exact")
	if w.done {
		verifAssert(w.innerErr == nil && w.innerN == int64(len(want2)) && w.innerOut.String() == want2, "C15/nested/inner-encoding-exact")
		verifCover("C15/nested/ran")
	}
}
