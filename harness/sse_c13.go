package sse

import (
	"net/http"
	"sync"
	"time"
)

// C13 — each event reaches exactly the callbacks subscribed to its type.

type vhSubSpec struct {
	kind   int // 0 typed, 1 all
	typ    string
	active bool
	remove EventCallbackRemover
	removedAt int // len(log) when its remover first returned (-1: never)
}

type vhCall struct {
	idx int
	ev  Event
}

// verifLockFree: would a Lock() by another goroutine succeed right now?
// Natively decided with TryLock (single-threaded replay).
func vhLockFree(mu *sync.RWMutex) bool {
	if verifSymbolic() {
		return verifLockFree(mu)
	}
	if mu.TryLock() {
		mu.Unlock()
		return true
	}
	return false
}

func vhC13() {
	// built through the public constructor so that the harness does not depend on the
	// representation of the subscription tables
	req := &http.Request{Method: "GET", Header: http.Header{}}
	// CTXCANCEL=1: one of the callbacks stops the connection (cancels the request context)
	// when it sees an event; the event still reaches every other subscribed callback
	var rctx *vhCtx
	cancelAt := -1
	if verifParam("CTXCANCEL", 0) == 1 {
		rctx = &vhCtx{done: make(chan struct{})}
		req = req.WithContext(rctx)
		cancelAt = verifChoose("cancelat", 3)
	}
	c := (&Client{}).NewConnection(req)
	// every map-typed and counter field of the Connection may only be read under the
	// lock and written under the exclusive lock
	verifGuardStruct(&c.mu, c)
	var subs []*vhSubSpec
	var log []vhCall
	// Native confirmation of a lock-discipline counterexample: the same operation sequence runs
	// under the Go race detector while a second goroutine keeps dispatching events of every
	// type subscribed so far (assertions are skipped, the detector is the oracle).
	race := !verifSymbolic() && verifParam("VERIF_RACE", 0) == 1
	var raceMu sync.Mutex
	raceTypes := []string{""}
	stop := make(chan struct{})
	var bg sync.WaitGroup
	if race {
		bg.Add(1)
		go func() {
			defer bg.Done()
			for {
				select {
				case <-stop:
					return
				default:
				}
				raceMu.Lock()
				ts := append([]string{}, raceTypes...)
				raceMu.Unlock()
				for _, t := range ts {
					c.dispatch(Event{Type: t})
				}
			}
		}()
		defer func() {
			time.Sleep(20 * time.Millisecond)
			close(stop)
			bg.Wait()
		}()
	}
	noteType := func(t string) {
		if race {
			raceMu.Lock()
			raceTypes = append(raceTypes, t)
			raceMu.Unlock()
			time.Sleep(2 * time.Millisecond)
		}
	}
	// a second goroutine that unsubscribes while a dispatch is in progress:
	// it gets its chance whenever a callback runs, and completes only if it can take the lock
	concurrentRemove := -1
	removedDuringDispatch := false
	mkcb := func(idx int) EventCallback {
		if race {
			return func(Event) {}
		}
		return func(e Event) {
			log = append(log, vhCall{idx, e})
			if idx == cancelAt && rctx != nil {
				rctx.cancel()
			}
			if concurrentRemove >= 0 && concurrentRemove < len(subs) && vhLockFree(&c.mu) {
				subs[concurrentRemove].remove()
				subs[concurrentRemove].active = false
				if subs[concurrentRemove].removedAt < 0 {
					subs[concurrentRemove].removedAt = len(log)
				}
				removedDuringDispatch = true
				concurrentRemove = -1
			}
		}
	}
	k := verifParam("K", 4)
	dispatched := 0
	for op := 0; op < k; op++ {
		switch verifChoose("op", 5) {
		case 0:
			t := vhC13Type("type")
			s := &vhSubSpec{kind: 0, typ: t, active: true, removedAt: -1}
			noteType(t)
			s.remove = c.SubscribeEvent(t, mkcb(len(subs)))
			subs = append(subs, s)
		case 1:
			s := &vhSubSpec{kind: 0, typ: "", active: true, removedAt: -1}
			s.remove = c.SubscribeMessages(mkcb(len(subs)))
			subs = append(subs, s)
		case 2:
			s := &vhSubSpec{kind: 1, active: true, removedAt: -1}
			s.remove = c.SubscribeToAll(mkcb(len(subs)))
			subs = append(subs, s)
		case 3:
			if len(subs) > 0 {
				j := verifChoose("remover", len(subs))
				subs[j].remove() // possibly repeated or stale: must be harmless
				if race {
					time.Sleep(2 * time.Millisecond)
					continue
				}
				subs[j].active = false
				if subs[j].removedAt < 0 {
					subs[j].removedAt = len(log)
				}
				verifCover("C13/removed")
			}
		case 4:
			ev := Event{Type: vhC13Type("evtype"), Data: "d", LastEventID: "i"}
			if race {
				c.dispatch(ev)
				continue
			}
			if len(subs) > 1 && verifChoose("concurrent", 2) == 1 {
				concurrentRemove = verifChoose("cremove", len(subs))
			}
			before := len(log)
			activeBefore := make([]bool, len(subs))
			for i, s := range subs {
				activeBefore[i] = s.active
			}
			removedDuringDispatch = false
			c.dispatch(ev)
			concurrentRemove = -1
			dispatched++
			// every active matching callback exactly once, nobody else
			for i, s := range subs {
				n := 0
				for _, call := range log[before:] {
					if call.idx == i {
						n++
						verifAssert(call.ev == ev, "C13/callback-receives-the-dispatched-event")
					}
				}
				match := s.kind == 1 || s.typ == ev.Type
				switch {
				case activeBefore[i] && s.active:
					if match {
						verifAssert(n == 1, "C13/active-matching-callback-invoked-exactly-once")
					} else {
						verifAssert(n == 0, "C13/non-matching-callback-not-invoked")
					}
				case !activeBefore[i]:
					verifAssert(n == 0, "C13/removed-callback-never-invoked-again")
				default:
					// removed by the other goroutine during this dispatch: at most once,
					// and never after its remover returned
					verifAssert(n <= 1, "C13/callback-invoked-at-most-once")
				}
			}
			if removedDuringDispatch {
				verifCover("C13/removed-concurrently")
			}
			// no invocation of a callback after its remover returned (checked in log order)
			for pos, call := range log {
				ra := subs[call.idx].removedAt
				verifAssert(ra < 0 || pos < ra, "C13/no-invocation-after-unsubscribe-returned")
			}
			verifCover("C13/dispatched")
		}
	}
	// per-callback order = dispatch order holds trivially per dispatch (each at most once);
	// stale removers never resurrect or remove others: re-dispatch to all and compare
	if dispatched > 0 && len(subs) > 0 {
		verifCover("C13/history-with-dispatch")
	}
}

// event types: an arbitrary string of <= 1 byte, or one of the names that are special
// somewhere (EventSource's default type, wildcards)
func vhC13Type(tag string) string {
	switch verifChoose(tag+".kind", verifParam("TYPEKINDS", 3)) {
	case 1:
		return "message"
	case 2:
		return "*"
	}
	return verifNondetString(tag, 1)
}

// C13 with real concurrency (LOCKSCHED=1: acquiring a mutex is a scheduling point of the
// interpreted threads): one goroutine dispatches an event, a second one unsubscribes a
// callback while that dispatch is inside an earlier callback - i.e. while the dispatch holds
// the lock. Once the unsubscribe function has returned, the callback is not invoked any more.
func vhC13Threads() {
	c := (&Client{}).NewConnection(&http.Request{Method: "GET", Header: http.Header{}})
	var nmu sync.Mutex // native runs only: protects the flags below
	lock := func() {
		if !verifSymbolic() {
			nmu.Lock()
		}
	}
	unlock := func() {
		if !verifSymbolic() {
			nmu.Unlock()
		}
	}
	inFirst := make(chan struct{}, 2)
	removed := make(chan struct{})
	giveUp := make(chan struct{})
	removerReturned, lateCall, calls := false, false, 0
	// typed callbacks run before subscribe-to-all ones: the first callback of the dispatch
	// signals that the dispatch is under way and lingers until the other goroutine is done
	// (or until it may not wait any longer: a correct unsubscribe blocks until the dispatch ends)
	c.SubscribeEvent("t", func(Event) {
		verifYield()
		inFirst <- struct{}{}
		verifYield()
		select {
		case <-removed:
		case <-giveUp:
		}
	})
	allTyped := verifChoose("victim-kind", 2) == 1
	victim := func(Event) {
		lock()
		calls++
		if removerReturned {
			lateCall = true
		}
		unlock()
	}
	var remove EventCallbackRemover
	if allTyped {
		remove = c.SubscribeToAll(victim)
	} else {
		remove = c.SubscribeEvent("u", victim) // reached by the second dispatched event only
	}
	verifGo(func() {
		c.dispatch(Event{Type: "t"})
		if !allTyped {
			c.dispatch(Event{Type: "u"})
		}
	})
	verifGo(func() {
		verifYield()
		<-inFirst
		remove()
		lock()
		removerReturned = true
		unlock()
		verifYield()
		close(removed)
	})
	verifGo(func() {
		if !verifSymbolic() {
			time.Sleep(30 * time.Millisecond)
		}
		verifYield()
		close(giveUp)
	})
	unfinished := verifRunThreads(verifParam("STEPS", 200))
	verifAssert(unfinished == 0, "C13/Threads/no-deadlock")
	verifAssert(!lateCall, "C13/no-invocation-after-unsubscribe-returned")
	verifAssert(calls <= 1, "C13/callback-invoked-at-most-once")
	verifCover("C13/Threads/ran")
}

// Two goroutines subscribe to the same, so far unused, event type at the same time
// (LOCKSCHED=1); an event of that type dispatched afterwards reaches both callbacks.
func vhC13ThreadsSub() {
	c := (&Client{}).NewConnection(&http.Request{Method: "GET", Header: http.Header{}})
	var nmu sync.Mutex
	calls := [2]int{}
	mk := func(i int) EventCallback {
		return func(Event) {
			if !verifSymbolic() {
				nmu.Lock()
				defer nmu.Unlock()
			}
			calls[i]++
		}
	}
	kinds := verifChoose("kinds", 2) // 0: both typed on "t"; 1: one typed, one subscribe-to-all
	verifGo(func() { c.SubscribeEvent("t", mk(0)) })
	verifGo(func() {
		if kinds == 0 {
			c.SubscribeEvent("t", mk(1))
		} else {
			c.SubscribeToAll(mk(1))
		}
	})
	unfinished := verifRunThreads(verifParam("STEPS", 200))
	verifAssert(unfinished == 0, "C13/Threads/no-deadlock")
	c.dispatch(Event{Type: "t"})
	verifAssert(calls[0] == 1 && calls[1] == 1, "C13/active-matching-callback-invoked-exactly-once")
	verifCover("C13/Threads/ran")
}
