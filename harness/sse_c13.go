package sse

import (
	"net/http"
	"sync"
)

// C13 — each event reaches exactly the callbacks subscribed to its type.

type vhSubSpec struct {
	kind   int // 0 typed, 1 all
	typ    string
	active bool
	remove EventCallbackRemover
	removedAt int // len(log) when its remover first returned (-1: never)
}

type vhCall struct {
	idx int
	ev  Event
}

// verifLockFree: would a Lock() by another goroutine succeed right now?
// Natively decided with TryLock (single-threaded replay).
func vhLockFree(mu *sync.RWMutex) bool {
	if verifSymbolic() {
		return verifLockFree(mu)
	}
	if mu.TryLock() {
		mu.Unlock()
		return true
	}
	return false
}

func vhC13() {
	// built through the public constructor so that the harness does not depend on the
	// representation of the subscription tables
	c := (&Client{}).NewConnection(&http.Request{Method: "GET", Header: http.Header{}})
	// every map-typed and counter field of the Connection may only be read under the
	// lock and written under the exclusive lock
	verifGuardStruct(&c.mu, c)
	var subs []*vhSubSpec
	var log []vhCall
	// a second goroutine that unsubscribes while a dispatch is in progress:
	// it gets its chance whenever a callback runs, and completes only if it can take the lock
	concurrentRemove := -1
	removedDuringDispatch := false
	mkcb := func(idx int) EventCallback {
		return func(e Event) {
			log = append(log, vhCall{idx, e})
			if concurrentRemove >= 0 && concurrentRemove < len(subs) && vhLockFree(&c.mu) {
				subs[concurrentRemove].remove()
				subs[concurrentRemove].active = false
				if subs[concurrentRemove].removedAt < 0 {
					subs[concurrentRemove].removedAt = len(log)
				}
				removedDuringDispatch = true
				concurrentRemove = -1
			}
		}
	}
	k := verifParam("K", 4)
	dispatched := 0
	for op := 0; op < k; op++ {
		switch verifChoose("op", 5) {
		case 0:
			t := verifNondetString("type", 1)
			s := &vhSubSpec{kind: 0, typ: t, active: true, removedAt: -1}
			s.remove = c.SubscribeEvent(t, mkcb(len(subs)))
			subs = append(subs, s)
		case 1:
			s := &vhSubSpec{kind: 0, typ: "", active: true, removedAt: -1}
			s.remove = c.SubscribeMessages(mkcb(len(subs)))
			subs = append(subs, s)
		case 2:
			s := &vhSubSpec{kind: 1, active: true, removedAt: -1}
			s.remove = c.SubscribeToAll(mkcb(len(subs)))
			subs = append(subs, s)
		case 3:
			if len(subs) > 0 {
				j := verifChoose("remover", len(subs))
				subs[j].remove() // possibly repeated or stale: must be harmless
				subs[j].active = false
				if subs[j].removedAt < 0 {
					subs[j].removedAt = len(log)
				}
				verifCover("C13/removed")
			}
		case 4:
			ev := Event{Type: verifNondetString("evtype", 1), Data: "d", LastEventID: "i"}
			if len(subs) > 1 && verifChoose("concurrent", 2) == 1 {
				concurrentRemove = verifChoose("cremove", len(subs))
			}
			before := len(log)
			activeBefore := make([]bool, len(subs))
			for i, s := range subs {
				activeBefore[i] = s.active
			}
			removedDuringDispatch = false
			c.dispatch(ev)
			concurrentRemove = -1
			dispatched++
			// every active matching callback exactly once, nobody else
			for i, s := range subs {
				n := 0
				for _, call := range log[before:] {
					if call.idx == i {
						n++
						verifAssert(call.ev == ev, "C13/callback-receives-the-dispatched-event")
					}
				}
				match := s.kind == 1 || s.typ == ev.Type
				switch {
				case activeBefore[i] && s.active:
					if match {
						verifAssert(n == 1, "C13/active-matching-callback-invoked-exactly-once")
					} else {
						verifAssert(n == 0, "C13/non-matching-callback-not-invoked")
					}
				case !activeBefore[i]:
					verifAssert(n == 0, "C13/removed-callback-never-invoked-again")
				default:
					// removed by the other goroutine during this dispatch: at most once,
					// and never after its remover returned
					verifAssert(n <= 1, "C13/callback-invoked-at-most-once")
				}
			}
			if removedDuringDispatch {
				verifCover("C13/removed-concurrently")
			}
			// no invocation of a callback after its remover returned (checked in log order)
			for pos, call := range log {
				ra := subs[call.idx].removedAt
				verifAssert(ra < 0 || pos < ra, "C13/no-invocation-after-unsubscribe-returned")
			}
			verifCover("C13/dispatched")
		}
	}
	// per-callback order = dispatch order holds trivially per dispatch (each at most once);
	// stale removers never resurrect or remove others: re-dispatch to all and compare
	if dispatched > 0 && len(subs) > 0 {
		verifCover("C13/history-with-dispatch")
	}
}
