package sse

import (
	"errors"
	"fmt"
	"io"
)

// C11 — Connect returns only for a reason; read errors are reported as themselves.

var vhErrRead = errors.New("verif: scripted read error")

// a read error that wraps io.EOF (a transport that annotates the peer's close): it is an
// error like any other, not a clean end of the stream
var vhErrReadWrapsEOF = fmt.Errorf("verif: connection closed by peer: %w", io.EOF)

// vhEndKind: 0 clean end, otherwise the read error the stream ends with.
func vhEndKind() error {
	switch verifChoose("endkind", 2+verifParam("EOFWRAP", 1)) {
	case 1:
		return vhErrRead
	case 2:
		return vhErrReadWrapsEOF
	}
	return nil
}

// Read over (stream, way of ending, chunking).
func vhC11Read() {
	stream := verifNondetBytes("stream", verifParam("N", 4))
	r := &vhReader{data: stream, seg: verifParam("SEG", 1) == 1}
	rerr := vhEndKind()
	failing := rerr != nil
	if failing {
		r.endErr = rerr
		r.eofWith = verifChoose("errwithdata", 2) == 1
	}
	stop := -1
	if verifParam("STOPERR", 1) == 1 && verifChoose("stop", 2) == 1 {
		stop = 1 // the consumer stops at the first event
	}
	o := vhRunRead(r, nil, stop)
	verifAssert(!o.errAfter && o.errs <= 1, "C11/Read/no-event-after-error")
	if o.stopped {
		// stopping early: nothing more is yielded, in particular not the reader's error
		verifAssert(o.errs == 0 && len(o.events) == 1, "C11/Read/nothing-yielded-after-the-consumer-stopped")
		return
	}
	if failing {
		verifAssert(o.err == rerr, "C11/Read/read-error-reported-as-itself")
		// events completed before the failure are delivered, the pending one is dropped
		spec := vhSpecInterpretEx(stream, false, false, false, "")
		verifAssert(vhEventsEqual(o.events, spec.events), "C11/Read/events-before-read-error")
		verifCover("C11/Read/failing-reader")
		return
	}
	spec := vhSpecInterpret(stream, false, false, "")
	if spec.end == vhEndUnexpected {
		verifAssert(o.err == ErrUnexpectedEOF, "C11/Read/ErrUnexpectedEOF-iff-clean-end-mid-line")
	} else {
		verifAssert(o.err == nil, "C11/Read/clean-end-no-error")
	}
}

// Connection.read over the same space: never nil, the reader's own error, EOF or ErrUnexpectedEOF.
func vhC11ConnRead() {
	stream := verifNondetBytes("stream", verifParam("N", 4))
	r := &vhReader{data: stream, seg: verifParam("SEG", 1) == 1}
	rerr := vhEndKind()
	failing := rerr != nil
	if failing {
		r.endErr = rerr
		r.eofWith = verifChoose("errwithdata", 2) == 1
	}
	o, _ := vhRunConn(r, "")
	verifAssert(o.err != nil, "C11/ConnRead/never-nil")
	if failing {
		verifAssert(o.err == rerr, "C11/ConnRead/read-error-reported-as-itself")
		spec := vhSpecInterpretEx(stream, true, false, false, "")
		verifAssert(vhEventsEqual(o.events, spec.events), "C11/ConnRead/events-before-read-error")
		verifCover("C11/ConnRead/failing-reader")
		return
	}
	spec := vhSpecInterpret(stream, true, false, "")
	if spec.end == vhEndUnexpected {
		verifAssert(o.err == ErrUnexpectedEOF, "C11/ConnRead/ErrUnexpectedEOF-iff-clean-end-mid-line")
	} else {
		verifAssert(o.err == io.EOF, "C11/ConnRead/clean-end-is-EOF")
	}
}
