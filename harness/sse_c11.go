package sse

import (
	"errors"
	"io"
)

// C11 — Connect returns only for a reason; read errors are reported as themselves.

var vhErrRead = errors.New("verif: scripted read error")

// Read over (stream, way of ending, chunking).
func vhC11Read() {
	stream := verifNondetBytes("stream", verifParam("N", 4))
	r := &vhReader{data: stream, seg: verifParam("SEG", 1) == 1}
	failing := verifChoose("endkind", 2) == 1
	if failing {
		r.endErr = vhErrRead
		r.eofWith = verifChoose("errwithdata", 2) == 1
	}
	o := vhRunRead(r, nil, -1)
	verifAssert(!o.errAfter && o.errs <= 1, "C11/Read/no-event-after-error")
	if failing {
		verifAssert(o.err == vhErrRead, "C11/Read/read-error-reported-as-itself")
		// events completed before the failure are delivered, the pending one is dropped
		spec := vhSpecInterpretEx(stream, false, false, false, "")
		verifAssert(vhEventsEqual(o.events, spec.events), "C11/Read/events-before-read-error")
		verifCover("C11/Read/failing-reader")
		return
	}
	spec := vhSpecInterpret(stream, false, false, "")
	if spec.end == vhEndUnexpected {
		verifAssert(o.err == ErrUnexpectedEOF, "C11/Read/ErrUnexpectedEOF-iff-clean-end-mid-line")
	} else {
		verifAssert(o.err == nil, "C11/Read/clean-end-no-error")
	}
}

// Connection.read over the same space: never nil, the reader's own error, EOF or ErrUnexpectedEOF.
func vhC11ConnRead() {
	stream := verifNondetBytes("stream", verifParam("N", 4))
	r := &vhReader{data: stream, seg: verifParam("SEG", 1) == 1}
	failing := verifChoose("endkind", 2) == 1
	if failing {
		r.endErr = vhErrRead
		r.eofWith = verifChoose("errwithdata", 2) == 1
	}
	o, _ := vhRunConn(r, "")
	verifAssert(o.err != nil, "C11/ConnRead/never-nil")
	if failing {
		verifAssert(o.err == vhErrRead, "C11/ConnRead/read-error-reported-as-itself")
		spec := vhSpecInterpretEx(stream, true, false, false, "")
		verifAssert(vhEventsEqual(o.events, spec.events), "C11/ConnRead/events-before-read-error")
		verifCover("C11/ConnRead/failing-reader")
		return
	}
	spec := vhSpecInterpret(stream, true, false, "")
	if spec.end == vhEndUnexpected {
		verifAssert(o.err == ErrUnexpectedEOF, "C11/ConnRead/ErrUnexpectedEOF-iff-clean-end-mid-line")
	} else {
		verifAssert(o.err == io.EOF, "C11/ConnRead/clean-end-is-EOF")
	}
}
