package sse

import (
	"errors"
	"io"
	"time"
)

// C01 — event-stream interpretation conforms to the WHATWG algorithm.

type vhReadOutcome struct {
	events   []Event
	err      error
	errAfter bool // an event was yielded after or together with an error
	errs     int
	stopped  bool
}

// vhRunRead drives sse.Read over r, stopping after `stop` events (stop < 0: never).
func vhRunRead(r io.Reader, cfg *ReadConfig, stop int) vhReadOutcome {
	var o vhReadOutcome
	Read(r, cfg)(func(e Event, err error) bool {
		if err != nil {
			o.errs++
			o.err = err
			if e != (Event{}) {
				o.errAfter = true
			}
			return true // keep going: nothing may follow an error
		}
		if o.errs > 0 {
			o.errAfter = true
		}
		o.events = append(o.events, e)
		if stop >= 0 && len(o.events) >= stop {
			o.stopped = true
			return false
		}
		return true
	})
	return o
}

func vhCheckReadAgainstSpec(prefix string, stream []byte, o vhReadOutcome, stop int, readErr error) {
	spec := vhSpecInterpret(stream, false, false, "")
	verifAssert(!o.errAfter, prefix+"/no-event-with-or-after-error")
	verifAssert(o.errs <= 1, prefix+"/at-most-one-error")
	want := spec.events
	if readErr != nil || spec.end == vhEndUnexpected {
		// the pending event is discarded; events completed before are kept
	}
	if o.stopped {
		// early stop: exactly the first `stop` events, nothing else
		verifAssert(len(want) >= stop, prefix+"/early-stop-prefix-length")
		if len(want) >= stop {
			verifAssert(vhEventsEqual(o.events, want[:stop]), prefix+"/early-stop-is-prefix")
		}
		verifAssert(o.errs == 0, prefix+"/no-error-after-stop")
		verifCover(prefix + "/stopped-early")
		return
	}
	verifAssert(len(o.events) == len(want), prefix+"/event-count")
	verifAssert(vhEventsEqual(o.events, want), prefix+"/events-equal-spec")
	if readErr == nil {
		if spec.end == vhEndUnexpected {
			verifAssert(o.err == ErrUnexpectedEOF, prefix+"/unterminated-line-reports-ErrUnexpectedEOF")
		} else {
			verifAssert(o.err == nil, prefix+"/clean-end-no-error")
		}
	}
	if len(o.events) > 0 {
		verifCover(prefix + "/some-event")
	}
}

// All byte strings <= N, every segmentation (SEG=1) or one chunk, every early-stop position.
func vhC01Read() {
	stream := verifNondetBytes("stream", verifParam("N", 4))
	r := &vhReader{data: stream, seg: verifParam("SEG", 1) == 1, eofWith: verifParam("EOFWITH", 0) == 1}
	stop := -1
	if verifParam("STOP", 1) == 1 {
		if k := verifChoose("stop", 3); k > 0 {
			stop = k // stop after the first / second event
		}
	}
	o := vhRunRead(r, nil, stop)
	vhCheckReadAgainstSpec("C01/Read", stream, o, stop, nil)
}

type vhConnOutcome struct {
	events  []Event
	retries []time.Duration
	retryAt []int
	err     error
}

func vhRunConn(r io.Reader, initialID string) (vhConnOutcome, *Connection) {
	var o vhConnOutcome
	c := vhNewConn(nil, nil)
	c.lastEventID = initialID
	c.SubscribeToAll(func(e Event) { o.events = append(o.events, e) })
	o.err = c.read(r, func(d time.Duration) {
		o.retries = append(o.retries, d)
		o.retryAt = append(o.retryAt, len(o.events))
	})
	return o, c
}

func vhCheckConnAgainstSpec(prefix string, stream []byte, initialID string, o vhConnOutcome, c *Connection, readErr error) {
	spec := vhSpecInterpret(stream, true, false, initialID)
	verifAssert(len(o.events) == len(spec.events), prefix+"/event-count")
	verifAssert(vhEventsEqual(o.events, spec.events), prefix+"/events-equal-spec")
	verifAssert(len(o.retries) == len(spec.retries), prefix+"/retry-count")
	if len(o.retries) == len(spec.retries) {
		ok := true
		for i := range o.retries {
			ok = verifAnd(ok, verifAnd(o.retries[i] == time.Duration(spec.retries[i])*time.Millisecond, o.retryAt[i] == spec.retryAt[i]))
		}
		verifAssert(ok, prefix+"/retry-values-and-order")
	}
	if readErr != nil {
		verifAssert(o.err == readErr, prefix+"/reader-error-reported-as-itself")
	} else if spec.end == vhEndUnexpected {
		verifAssert(o.err == ErrUnexpectedEOF, prefix+"/unterminated-line-reports-ErrUnexpectedEOF")
	} else {
		verifAssert(o.err == io.EOF, prefix+"/clean-end-reports-EOF")
	}
	// the stored ID is the one of the last dispatched event
	wantID := initialID
	if n := len(spec.events); n > 0 {
		wantID = spec.events[n-1].LastEventID
	}
	verifAssert(c.lastEventID == wantID, prefix+"/stored-last-event-id")
	if len(o.events) > 0 {
		verifCover(prefix + "/some-event")
	}
	if len(o.retries) > 0 {
		verifCover(prefix + "/some-retry")
	}
}

func vhC01Conn() {
	stream := verifNondetBytes("stream", verifParam("N", 4))
	initialID := verifNondetString("initid", 1)
	r := &vhReader{data: stream, seg: verifParam("SEG", 1) == 1, eofWith: verifParam("EOFWITH", 0) == 1}
	o, c := vhRunConn(r, initialID)
	vhCheckConnAgainstSpec("C01/Conn", stream, initialID, o, c, nil)
}

// ---- templates: literal field names / terminators with symbolic holes ----

var vhTplPrefix = []string{"", "\xEF\xBB\xBF", "\n\xEF\xBB\xBF", "\r\n\xEF\xBB\xBF"}
var vhTplName = []string{"data", "event", "id", "retry", "", "dat", "datas"}
var vhTplTerm = []string{"\n", "\r", "\r\n", ""}

func vhTplLine(i int) []byte {
	tag := "line"
	name := vhTplName[verifChoose(tag+".name", verifParam("NAMES", len(vhTplName)))]
	b := []byte(name)
	switch verifChoose(tag+".sep", 3) {
	case 0:
	case 1:
		b = append(b, ':')
	case 2:
		b = append(b, ':', ' ')
	}
	if h := verifParam("HOLE", 2); h > 0 {
		b = append(b, verifNondetBytes(tag+".hole", h)...)
	}
	return b
}

func vhC01Template() []byte {
	var s []byte
	s = append(s, vhTplPrefix[verifChoose("prefix", verifParam("PREFIXES", len(vhTplPrefix)))]...)
	nl := verifParam("LINES", 2)
	for i := 0; i < nl; i++ {
		s = append(s, vhTplLine(i)...)
		t := vhTplTerm[verifChoose("term", len(vhTplTerm))]
		if t == "" && i < nl-1 {
			t = "\n\n" // an inner unterminated line would just merge with the next: use an event boundary instead
		}
		s = append(s, t...)
	}
	s = append(s, []string{"", "\n", "\r\n"}[verifChoose("tail", 3)]...)
	return s
}

func vhC01ReadTpl() {
	stream := vhC01Template()
	r := &vhReader{data: stream, seg: verifParam("SEG", 0) == 1, bytewise: verifParam("BYTEWISE", 0) == 1}
	o := vhRunRead(r, nil, -1)
	vhCheckReadAgainstSpec("C01/ReadTpl", stream, o, -1, nil)
}

func vhC01ConnTpl() {
	stream := vhC01Template()
	initialID := verifNondetString("initid", 1)
	r := &vhReader{data: stream, bytewise: verifParam("BYTEWISE", 0) == 1}
	o, c := vhRunConn(r, initialID)
	vhCheckConnAgainstSpec("C01/ConnTpl", stream, initialID, o, c, nil)
}

var _ = errors.New

// Small scanner buffers: values handed out by the parser must stay intact when the
// scanner compacts and refills its buffer (the default 4 KiB buffer only does that
// on long streams; here the same bufio.Scanner logic runs with a 16-byte buffer).
func vhSmallBufStream() []byte {
	var s []byte
	n := 1 + verifChoose("more", 2)
	if verifChoose("shape", 2) == 0 {
		// the first event fills the 16-byte buffer exactly
		s = append(s, "id:i7\nevent:ty\n\n"...)
	} else {
		// a 7-byte event followed by 8-byte ones: a read that fills the buffer stops
		// in the middle of a line while complete events are buffered in front of it
		s = append(s, "id:i7\n\n"...)
		n++
	}
	for i := 0; i < n; i++ {
		s = append(s, "data:"...)
		s = append(s, verifNondetBytes("datahole", 1)...)
		s = append(s, "\n\n"...)
	}
	return s
}

func vhC01SmallBufRead() {
	stream := vhSmallBufStream()
	r := &vhReader{data: stream, seg: true, coarse: true, budget: verifParam("FORKS", 4)}
	o := vhRunRead(r, &ReadConfig{MaxEventSize: verifParam("L", 16)}, -1)
	vhCheckReadAgainstSpec("C01/SmallBufRead", stream, o, -1, nil)
}

func vhC01SmallBufConn() {
	stream := vhSmallBufStream()
	r := &vhReader{data: stream, seg: true, coarse: true, budget: verifParam("FORKS", 4)}
	var o vhConnOutcome
	c := vhNewConn(nil, nil)
	c.Buffer(nil, verifParam("L", 16))
	c.SubscribeToAll(func(e Event) { o.events = append(o.events, e) })
	o.err = c.read(r, func(d time.Duration) {
		o.retries = append(o.retries, d)
		o.retryAt = append(o.retryAt, len(o.events))
	})
	vhCheckConnAgainstSpec("C01/SmallBufConn", stream, "", o, c, nil)
}

// Two consecutive events with every combination of line terminators, delivered
// byte-at-a-time and with one cut at every position (in particular inside a CRLF).
func vhTwoEventStream() []byte {
	nl := []string{"\n", "\r", "\r\n"}
	var s []byte
	for e := 0; e < 2; e++ {
		s = append(s, "data:"...)
		s = append(s, verifNondetBytes("hole", 1)...)
		s = append(s, nl[verifChoose("nl", 3)]...)
		s = append(s, nl[verifChoose("nl", 3)]...)
	}
	return s
}

func vhTwoEventReader(stream []byte) *vhReader {
	r := &vhReader{data: stream}
	if k := verifChoose("cut", len(stream)+1); k == 0 {
		r.bytewise = true
	} else {
		r.cutAt = k
	}
	// the last bytes may arrive together with io.EOF (net/http bodies of known length do that)
	r.eofWith = verifChoose("eofwith", 2) == 1
	return r
}

func vhC01TwoEventsRead() {
	stream := vhTwoEventStream()
	o := vhRunRead(vhTwoEventReader(stream), nil, -1)
	vhCheckReadAgainstSpec("C01/TwoEventsRead", stream, o, -1, nil)
}

func vhC01TwoEventsConn() {
	stream := vhTwoEventStream()
	o, c := vhRunConn(vhTwoEventReader(stream), "")
	vhCheckConnAgainstSpec("C01/TwoEventsConn", stream, "", o, c, nil)
}
