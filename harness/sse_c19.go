package sse

import "time"

// C19 — clones are independent; (Put never mutates: asserted in the C08/C09 Put harnesses).

// vhArbitraryMessage builds a message with 0..2 chunks whose chunk slice has
// an arbitrary spare capacity (0..2): the states a history of appends can leave.
func vhArbitraryMessage(tag string) *Message {
	m := &Message{}
	n := verifChoose(tag+".chunks", 3)
	spare := verifChoose(tag+".spare", 3)
	m.chunks = make([]chunk, 0, n+spare)
	for i := 0; i < n; i++ {
		m.chunks = append(m.chunks, chunk{content: []string{"a", "b"}[i], isComment: i == 1})
	}
	return m
}

func vhC19Clone() {
	fam := []*Message{vhArbitraryMessage("m0")}
	k := verifParam("K", 3)
	for step := 0; step < k; step++ {
		i := verifChoose("target", len(fam))
		before := make([]string, len(fam))
		for j := range fam {
			before[j] = fam[j].String()
		}
		switch verifChoose("op", 6) {
		case 5:
			// reusing a message as the receiver of UnmarshalText must not disturb its clones
			_ = fam[i].UnmarshalText([]byte("data: z\n: c\n\n"))
		case 0:
			fam[i].AppendData(verifNondetString("data", verifParam("S", 2)))
		case 1:
			fam[i].AppendComment(verifNondetString("comment", verifParam("S", 2)))
		case 2:
			s := verifNondetString("field", 1)
			verifAssume(vhSingleLine(s))
			if verifNondetBool("isid") {
				fam[i].ID = ID(s)
			} else {
				fam[i].Type = Type(s)
			}
		case 3:
			fam[i].Retry = []time.Duration{0, time.Millisecond, 1500 * time.Millisecond}[verifChoose("retry", 3)]
		case 4:
			if len(fam) < 3 {
				c := fam[i].Clone()
				verifAssert(c != fam[i], "C19/Clone/distinct-object")
				verifAssert(c.String() == before[i], "C19/Clone/encodes-like-original")
				fam = append(fam, c)
				verifCover("C19/Clone/cloned")
			}
		}
		for j := range before {
			if j != i {
				verifAssert(fam[j].String() == before[j], "C19/Clone/others-unchanged-by-mutation")
			}
		}
	}
}
