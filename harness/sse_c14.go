package sse

import (
	"net/http"
)

// C14 — a set EventID/EventType is always a single line.

func vhHasNL(s string) bool {
	r := false
	for i := 0; i < len(s); i++ {
		r = verifOr(r, verifOr(s[i] == '\n', s[i] == '\r'))
	}
	return r
}

func vhC14Check(route string, in string, f messageField, err error, hasErr bool) {
	multi := vhHasNL(in)
	verifAssert(!f.IsSet() || !vhHasNL(f.String()), "C14/"+route+"/set-implies-single-line")
	verifAssert(!multi || !f.IsSet(), "C14/"+route+"/multiline-input-leaves-unset")
	if hasErr {
		verifAssert(!multi || err != nil, "C14/"+route+"/multiline-input-reports-error")
	}
	if !multi && f.IsSet() {
		verifCover("C14/" + route + "/accepted")
		verifAssert(f.String() == in, "C14/"+route+"/value-preserved")
	}
}

func vhC14NewID() {
	s := verifNondetString("s", verifParam("N", 4))
	id, err := NewID(s)
	vhC14Check("NewID", s, id.messageField, err, true)
	verifAssert((err == nil) == id.IsSet(), "C14/NewID/error-iff-unset")
}

func vhC14NewType() {
	s := verifNondetString("s", verifParam("N", 4))
	t, err := NewType(s)
	vhC14Check("NewType", s, t.messageField, err, true)
	verifAssert((err == nil) == t.IsSet(), "C14/NewType/error-iff-unset")
}

// ID()/Type() panic on invalid input: the panic is the error report.
func vhC14MustID() {
	s := verifNondetString("s", verifParam("N", 4))
	var id EventID
	panicked := func() (p bool) {
		defer func() {
			if recover() != nil {
				p = true
			}
		}()
		id = ID(s)
		return false
	}()
	var err error
	if panicked {
		err = ErrUnexpectedEOF // any non-nil error stands for "reported"
	}
	vhC14Check("ID", s, id.messageField, err, true)
}

func vhC14MustType() {
	s := verifNondetString("s", verifParam("N", 4))
	var ty EventType
	panicked := func() (p bool) {
		defer func() {
			if recover() != nil {
				p = true
			}
		}()
		ty = Type(s)
		return false
	}()
	var err error
	if panicked {
		err = ErrUnexpectedEOF
	}
	vhC14Check("Type", s, ty.messageField, err, true)
}

func vhC14UnmarshalText() {
	b := verifNondetBytes("b", verifParam("N", 4))
	// the receiver starts from an arbitrary previous value
	f := messageField{value: verifNondetString("prev", 2), set: verifNondetBool("prevset")}
	in := string(b)
	err := f.UnmarshalText(b)
	vhC14Check("UnmarshalText", in, f, err, true)
	for i := range b {
		b[i] = '\n'
	}
	verifAssert(!f.IsSet() || !vhHasNL(f.String()), "C14/UnmarshalText/single-line-after-buffer-reuse")
}

func vhC14Scan() {
	var f messageField
	f = messageField{value: verifNondetString("prev", 2), set: verifNondetBool("prevset")}
	var in string
	var err error
	switch verifChoose("srckind", 4) {
	case 0:
		err = f.Scan(nil)
		verifAssert(!f.IsSet() && err == nil, "C14/Scan/nil-unsets")
		return
	case 1:
		b := verifNondetBytes("b", verifParam("N", 4))
		in = string(b)
		err = f.Scan(b)
		for i := range b {
			b[i] = '\n' // database drivers reuse the byte slice after Scan returns
		}
	case 2:
		in = verifNondetString("s", verifParam("N", 4))
		err = f.Scan(in)
	case 3:
		err = f.Scan(verifNondetInt64("i"))
		verifAssert(!f.IsSet() && err != nil, "C14/Scan/unsupported-type-unsets")
		return
	}
	vhC14Check("Scan", in, f, err, true)
}

// The Last-Event-Id request header as parsed by Upgrade.
type vhFlushWriter struct{ h http.Header }

func (w *vhFlushWriter) Header() http.Header         { return w.h }
func (w *vhFlushWriter) Write(p []byte) (int, error) { return len(p), nil }
func (w *vhFlushWriter) WriteHeader(int)             {}
func (w *vhFlushWriter) Flush()                      {}

func vhC14Upgrade() {
	r := &http.Request{Header: http.Header{}}
	var first string
	switch verifChoose("hdr", 3) {
	case 0: // absent
	case 1:
		first = verifNondetString("h0", verifParam("N", 4))
		r.Header["Last-Event-Id"] = []string{first}
	case 2:
		first = verifNondetString("h0", verifParam("N", 3))
		r.Header["Last-Event-Id"] = []string{first, verifNondetString("h1", 2)}
	}
	sess, err := Upgrade(&vhFlushWriter{h: http.Header{}}, r)
	verifAssert(err == nil && sess != nil, "C14/Upgrade/flushing-writer-accepted")
	id := sess.LastEventID
	vhC14Check("Upgrade", first, id.messageField, nil, false)
	verifAssert(first != "" || !id.IsSet(), "C14/Upgrade/empty-or-absent-header-unset")
}

// Message.UnmarshalText: IDs and types come from single-line parser fields.
func vhC14MessageUnmarshal() {
	wire := verifNondetBytes("wire", verifParam("N", 4))
	var m Message
	_ = m.UnmarshalText(wire)
	verifAssert(!m.ID.IsSet() || !vhHasNL(m.ID.String()), "C14/Message.UnmarshalText/id-single-line")
	verifAssert(!m.Type.IsSet() || !vhHasNL(m.Type.String()), "C14/Message.UnmarshalText/type-single-line")
	// the caller may reuse its buffer afterwards (encoding.TextUnmarshaler must copy what it keeps)
	for i := range wire {
		wire[i] = '\n'
	}
	verifAssert(!m.ID.IsSet() || !vhHasNL(m.ID.String()), "C14/Message.UnmarshalText/id-single-line-after-buffer-reuse")
	verifAssert(!m.Type.IsSet() || !vhHasNL(m.Type.String()), "C14/Message.UnmarshalText/type-single-line-after-buffer-reuse")
}

// Templates "id:<hole>\n" and "event:<hole>\n" reach the field code with longer values.
func vhC14MessageUnmarshalTpl() {
	name := []string{"id", "event", "id:", "event: "}[verifChoose("name", 4)]
	hole := verifNondetString("hole", verifParam("N", 4))
	term := []string{"\n", "\r", "\r\n", "\n\n"}[verifChoose("term", 4)]
	wire := name + ":" + hole + term
	var m Message
	buf := []byte(wire)
	_ = m.UnmarshalText(buf)
	verifAssert(!m.ID.IsSet() || !vhHasNL(m.ID.String()), "C14/Message.UnmarshalText/id-single-line")
	verifAssert(!m.Type.IsSet() || !vhHasNL(m.Type.String()), "C14/Message.UnmarshalText/type-single-line")
	for i := range buf {
		buf[i] = '\n'
	}
	verifAssert(!m.ID.IsSet() || !vhHasNL(m.ID.String()), "C14/Message.UnmarshalText/id-single-line-after-buffer-reuse")
	verifAssert(!m.Type.IsSet() || !vhHasNL(m.Type.String()), "C14/Message.UnmarshalText/type-single-line-after-buffer-reuse")
	if m.ID.IsSet() || m.Type.IsSet() {
		verifCover("C14/Message.UnmarshalText/field-set")
	}
}

// UnmarshalJSON: encoding/json is over-approximated by the executor (the
// document decodes to the arbitrary string s, or decoding fails); natively the
// document is the real JSON encoding of s.
func vhC14UnmarshalJSON() {
	f := messageField{value: verifNondetString("prev", 2), set: verifNondetBool("prevset")}
	if verifChoose("null", 2) == 1 {
		err := f.UnmarshalJSON([]byte("null"))
		verifAssert(err == nil && !f.IsSet(), "C14/UnmarshalJSON/null-unsets")
		return
	}
	s := verifNondetString("s", verifParam("N", 4))
	err := f.UnmarshalJSON(verifJSONDoc(s))
	vhC14Check("UnmarshalJSON", s, f, err, true)
}

// Several lines with every mix of line terminators (the line-ending style may change from
// one line to the next): an id:/event: value never swallows a terminator and the line after it.
func vhC14MessageUnmarshalLines() {
	nl := []string{"\n", "\r", "\r\n"}
	first := []string{"data:a", ":c", "id:0"}[verifChoose("first", 3)]
	name := []string{"id:", "event:"}[verifChoose("name", 2)]
	hole := verifNondetString("hole", 1)
	wire := first + nl[verifChoose("nl", 3)] + name + "1" + hole + nl[verifChoose("nl", 3)] + "data: injected" + nl[verifChoose("nl", 3)] + nl[verifChoose("nl", 3)]
	var m Message
	_ = m.UnmarshalText([]byte(wire))
	verifAssert(!m.ID.IsSet() || !vhHasNL(m.ID.String()), "C14/Message.UnmarshalText/id-single-line")
	verifAssert(!m.Type.IsSet() || !vhHasNL(m.Type.String()), "C14/Message.UnmarshalText/type-single-line")
	if m.ID.IsSet() || m.Type.IsSet() {
		verifCover("C14/Message.UnmarshalText/field-set")
	}
}
