package sse

import (
	"strconv"
	"time"
)

// C09 / C18 through the public API only (constructor, Now, GCInterval, Put, Replay, GC):
// a bounded history from the *initial* state with symbolic clock advances, compared with
// the abstract list of (event, expiry). Independent of the replayer's representation, so it
// keeps working when a change of representation makes the inductive-step harnesses
// (which construct ring states directly) unloadable.

type vhHistEntry struct {
	msg    *Message
	topics []string
	exp    time.Time
}

type vhHistClient struct {
	sent    []*Message
	flushes int
}

func (c *vhHistClient) Send(m *Message) error { c.sent = append(c.sent, m); return nil }
func (c *vhHistClient) Flush() error          { c.flushes++; return nil }

func vhC09History() {
	auto := verifParam("AUTO", 0) == 1
	ttl := 10 * time.Millisecond
	v, err := NewValidReplayer(ttl, auto)
	verifAssert(err == nil && v != nil, "C09/History/constructed")
	v.GCInterval = []time.Duration{0, 3 * time.Millisecond}[verifChoose("gcinterval", 2)]
	now := time.Unix(1000, 900000) // not on a millisecond boundary
	v.Now = func() time.Time { return now }
	var model []vhHistEntry
	k := verifParam("K", 4)
	puts := 0
	for step := 0; step < k; step++ {
		switch verifChoose("op", 4) {
		case 0:
			m := &Message{}
			m.AppendData("d" + strconv.Itoa(puts))
			if !auto {
				m.ID = ID("m" + strconv.Itoa(puts))
			}
			topics := [][]string{{"t"}, {"u"}}[verifChoose("ptopic", 2)]
			got, perr := v.Put(m, topics)
			verifAssert(perr == nil && got != nil, "C09/History/put-accepted")
			if perr != nil || got == nil {
				return
			}
			if auto {
				verifAssert(got.ID.String() == strconv.Itoa(puts), "C09/History/auto-ids-count-from-zero")
			}
			model = append(model, vhHistEntry{msg: got, topics: topics, exp: now.Add(ttl)})
			puts++
		case 1:
			d := verifNondetInt64("advance")
			verifAssume(d >= 0 && d <= int64(25*time.Millisecond))
			now = now.Add(time.Duration(d))
		case 2:
			v.GC()
		case 3:
			if len(model) == 0 {
				continue
			}
			from := verifChoose("from", len(model))
			stopics := [][]string{{"t"}, {"t", "u"}}[verifChoose("stopic", 2)]
			cl := &vhHistClient{}
			rerr := v.Replay(Subscription{Client: cl, LastEventID: model[from].msg.ID, Topics: stopics})
			verifAssert(rerr == nil, "C09/History/replay-no-error")
			// nothing is ever replayed at or after its Put time plus the TTL
			for _, m := range cl.sent {
				for _, e := range model {
					if e.msg == m {
						verifAssert(e.exp.After(now), "C09/History/never-replayed-at-or-after-expiry")
					}
				}
			}
			// from an unexpired event: exactly the later unexpired matching ones, in Put order
			if model[from].exp.After(now) {
				var want []*Message
				for _, e := range model[from+1:] {
					if e.exp.After(now) && vhTopicsIntersect(stopics, e.topics) {
						want = append(want, e.msg)
					}
				}
				same := len(want) == len(cl.sent)
				if same {
					for i := range want {
						if want[i] != cl.sent[i] {
							same = false
						}
					}
				}
				verifAssert(same, "C09/History/replays-exactly-the-later-unexpired-matching-events")
				if len(want) > 0 {
					verifAssert(cl.flushes >= 1, "C09/History/flushes-after-replaying")
					verifCover("C09/History/replayed")
				}
			}
		}
	}
	// C18: whatever has expired and been collected explicitly is unreachable
	v.GC()
	for _, e := range model {
		if !e.exp.After(now) {
			verifAssert(!verifReachable(v, e.msg), "C18/Valid/collected-message-unreachable")
		}
	}
}
