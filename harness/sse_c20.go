package sse

import (
	"bufio"
	"errors"
	"io"
	"math"
	"net/http"
	"net/url"
	"time"
)

// C20 — parser memory is bounded by the configured maximum event size.

// vhTokenEnds returns the end offsets of the scanner tokens of a stream, defined
// independently of splitFunc: a token is the blank lines before an event, the
// event's lines and the blank line that ends it; the rest of the stream (if any)
// is a last token.
func vhTokenEnds(s []byte) (ends []int, minEnds []int) {
	pos := 0
	nonblank := false
	for pos < len(s) {
		e := pos
		for e < len(s) && s[e] != '\n' && s[e] != '\r' {
			e++
		}
		if e == len(s) {
			break // unterminated rest
		}
		next := e + 1
		if s[e] == '\r' && next < len(s) && s[next] == '\n' {
			next++
		}
		if e == pos { // blank line
			if nonblank {
				ends = append(ends, next)
				// the scanner may hand the token out as soon as the first byte of the
				// final CRLF is in its buffer (the LF then opens the next token)
				minEnds = append(minEnds, e+1)
				nonblank = false
			}
		} else {
			nonblank = true
		}
		pos = next
	}
	if len(ends) == 0 || ends[len(ends)-1] != len(s) {
		if len(s) > 0 {
			ends = append(ends, len(s))
			minEnds = append(minEnds, len(s))
		}
	}
	return ends, minEnds
}

func vhC20Check(prefix string, stream []byte, lim int, events []Event, err error, nread int, conn bool) {
	ends, minEnds := vhTokenEnds(stream)
	// first token that cannot fit
	start := 0
	badStart, tooLong, boundary := -1, false, false
	for i, e := range ends {
		if minEnds[i]-start > lim {
			badStart, tooLong = start, true
			break
		}
		if e-start >= lim {
			badStart, boundary = start, true
			break
		}
		start = e
	}
	full := vhSpecInterpret(stream, conn, false, "")
	if badStart < 0 {
		verifAssert(err != bufio.ErrTooLong, prefix+"/no-ErrTooLong-when-every-token-is-smaller-than-the-limit")
		verifAssert(vhEventsEqual(events, full.events), prefix+"/small-events-delivered-completely-and-intact")
		verifCover(prefix + "/all-fit")
		return
	}
	// events of the tokens before the oversized one
	before := vhSpecInterpretEx(stream[:badStart], conn, false, false, "")
	if tooLong {
		verifAssert(err == bufio.ErrTooLong, prefix+"/oversized-token-reports-ErrTooLong")
		verifAssert(vhEventsEqual(events, before.events), prefix+"/only-events-before-the-oversized-one-never-a-truncated-one")
		verifAssert(nread <= badStart+lim, prefix+"/reads-at-most-the-limit-beyond-the-last-completed-token")
		verifCover(prefix + "/too-long")
	} else if boundary {
		// a token right at the limit may or may not fit; never a truncated or altered event
		n := len(events)
		verifAssert(n <= len(full.events) && vhEventsEqual(events, full.events[:n]), prefix+"/events-are-a-prefix-of-the-specified-ones")
		verifAssert(n >= len(before.events), prefix+"/events-before-the-limit-token-delivered")
		verifCover(prefix + "/boundary")
	}
	if err == bufio.ErrTooLong {
		verifCover(prefix + "/ErrTooLong")
	}
}

func vhC20Read() {
	lim := verifParam("L", 4)
	stream := verifNondetBytes("stream", verifParam("N", 6))
	r := &vhReader{data: stream, seg: verifParam("SEG", 1) == 1}
	o := vhRunRead(r, &ReadConfig{MaxEventSize: lim}, -1)
	verifAssert(!o.errAfter, "C20/Read/no-event-after-error")
	vhC20Check("C20/Read", stream, lim, o.events, o.err, r.nread, false)
}

func vhC20Conn() {
	lim := verifParam("L", 4)
	stream := verifNondetBytes("stream", verifParam("N", 6))
	r := &vhReader{data: stream, seg: verifParam("SEG", 1) == 1}
	var o vhConnOutcome
	c := vhNewConn(nil, nil)
	// Connection.Buffer with an initial buffer of arbitrary small capacity
	bl := verifChoose("buflen", verifParam("BUFMAX", 3)+1)
	var buf []byte
	if verifChoose("bufnil", 2) == 0 {
		buf = make([]byte, bl)
	}
	c.Buffer(buf, lim)
	eff := lim
	if cap(buf) > eff {
		eff = cap(buf) // "the larger of max and cap(buf)": also when the limit is given by the buffer alone
	}
	verifAssume(eff >= 1)
	c.SubscribeToAll(func(e Event) { o.events = append(o.events, e) })
	if verifParam("TWICE", 0) == 1 {
		// an earlier connection of the same Connection (a reconnect follows): the configured
		// limit must still hold for the next one
		_ = c.read(&vhReader{data: []byte(":\n\n")}, func(time.Duration) {})
		o.events = nil
		c.lastEventID = ""
	}
	o.err = c.read(r, func(time.Duration) {})
	vhC20Check("C20/Conn", stream, eff, o.events, o.err, r.nread, true)
}

// The limit also bounds what a whole connection attempt pulls from the response body:
// Connect against a scripted transport whose body never completes an event.
type vhCountingBody struct {
	data   []byte
	pos    int
	closed bool
}

func (b *vhCountingBody) Read(p []byte) (int, error) {
	if b.pos >= len(b.data) {
		return 0, io.EOF
	}
	n := copy(p, b.data[b.pos:])
	b.pos += n
	return n, nil
}
func (b *vhCountingBody) Close() error { b.closed = true; return nil }

type vhOneShotTransport struct{ body *vhCountingBody }

func (t vhOneShotTransport) RoundTrip(*http.Request) (*http.Response, error) {
	return &http.Response{StatusCode: 200, Header: http.Header{}, Body: t.body}, nil
}

func vhC20Connect() {
	lim := verifParam("L", 4)
	body := &vhCountingBody{data: []byte("data: this line never ends and is far longer than the limit")}
	cl := &Client{
		HTTPClient:        &http.Client{Transport: vhOneShotTransport{body}},
		Backoff:           Backoff{MaxRetries: -1},
		ResponseValidator: NoopValidator,
	}
	req := &http.Request{Method: "GET", URL: &url.URL{Scheme: "http", Host: "verif.invalid", Path: "/"}, Header: http.Header{}}
	c := cl.NewConnection(req)
	c.Buffer(nil, lim)
	n := 0
	c.SubscribeToAll(func(Event) { n++ })
	err := c.Connect()
	var ce *ConnectionError
	verifAssert(errors.As(err, &ce) && ce.Err == bufio.ErrTooLong, "C20/Connect/oversized-event-ends-the-attempt-with-ErrTooLong")
	verifAssert(n == 0, "C20/Connect/no-partial-event-delivered")
	verifAssert(body.pos <= lim, "C20/Connect/reads-at-most-the-limit-before-reporting")
	verifAssert(body.closed, "C20/Connect/body-closed")
}

// "Unlimited": the largest values the configuration can carry. Nothing is allocated up
// front for them, no call panics, and a small stream is delivered intact.
func vhC20Huge() {
	lim := []int{math.MaxInt, 1 << 62}[verifChoose("limit", 2)]
	stream := append(append([]byte("data:"), verifNondetBytes("hole", 1)...), []byte("\n\n")...)
	if verifChoose("api", 2) == 0 {
		o := vhRunRead(&vhReader{data: stream}, &ReadConfig{MaxEventSize: lim}, -1)
		vhCheckReadAgainstSpec("C20/Huge/Read", stream, o, -1, nil)
	} else {
		var o vhConnOutcome
		c := vhNewConn(nil, nil)
		c.Buffer(nil, lim)
		c.SubscribeToAll(func(e Event) { o.events = append(o.events, e) })
		o.err = c.read(&vhReader{data: stream}, func(time.Duration) {})
		vhCheckConnAgainstSpec("C20/Huge/Conn", stream, "", o, c, nil)
	}
	verifCover("C20/Huge/ran")
}
