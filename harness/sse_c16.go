package sse

import (
	"context"
	"errors"
	"net/http"
	"time"
)

// C16 — Session and Server keep the HTTP side of the protocol.

var vhErrIO = errors.New("verif: scripted writer failure")

const (
	vhEvWrite = iota
	vhEvFlush
	vhEvHeaderCall
	vhEvWriteHeader
)

type vhRecEvent struct {
	kind      int
	data      string
	ctAtEvent bool // Content-Type: text/event-stream present in the header map at this moment
	code      int
	failed    bool
}

// vhRec is the shared recorder behind every writer shape.
type vhRec struct {
	h      http.Header
	log    []vhRecEvent
	calls  int // Write + flush calls, the index space of failAt
	failAt int // symbolic: the call with this index fails (if it can)
}

func (r *vhRec) ctSet() bool {
	v := r.h["Content-Type"]
	return len(v) == 1 && v[0] == "text/event-stream"
}

func (r *vhRec) header() http.Header {
	r.log = append(r.log, vhRecEvent{kind: vhEvHeaderCall})
	return r.h
}

func (r *vhRec) write(p []byte) (int, error) {
	i := r.calls
	r.calls++
	if i == r.failAt {
		r.log = append(r.log, vhRecEvent{kind: vhEvWrite, failed: true, ctAtEvent: r.ctSet()})
		return 0, vhErrIO
	}
	r.log = append(r.log, vhRecEvent{kind: vhEvWrite, data: string(p), ctAtEvent: r.ctSet()})
	return len(p), nil
}

func (r *vhRec) flush(canFail bool) error {
	i := r.calls
	r.calls++
	if canFail && i == r.failAt {
		r.log = append(r.log, vhRecEvent{kind: vhEvFlush, failed: true, ctAtEvent: r.ctSet()})
		return vhErrIO
	}
	r.log = append(r.log, vhRecEvent{kind: vhEvFlush, ctAtEvent: r.ctSet()})
	return nil
}

func (r *vhRec) writeHeader(code int) {
	r.log = append(r.log, vhRecEvent{kind: vhEvWriteHeader, code: code})
}

// writer shapes: distinct types with different method sets
type vhWPlain struct{ r *vhRec }

func (w vhWPlain) Header() http.Header         { return w.r.header() }
func (w vhWPlain) Write(p []byte) (int, error) { return w.r.write(p) }
func (w vhWPlain) WriteHeader(c int)           { w.r.writeHeader(c) }

type vhWFlusher struct{ vhWPlain }

func (w vhWFlusher) Flush() { _ = w.r.flush(false) }

type vhWFlushErr struct{ vhWPlain }

func (w vhWFlushErr) FlushError() error { return w.r.flush(true) }

type vhWBoth struct{ vhWPlain }

// the connection fails whichever method is used; Flush() merely cannot report it
func (w vhWBoth) Flush()            { _ = w.r.flush(true) }
func (w vhWBoth) FlushError() error { return w.r.flush(true) }

type vhWWrap struct {
	vhWPlain
	inner http.ResponseWriter
}

func (w vhWWrap) Unwrap() http.ResponseWriter { return w.inner }

// vhMakeWriter returns a writer of the chosen shape; canFlush/flushCanFail describe it.
func vhMakeWriter(rec *vhRec) (w http.ResponseWriter, canFlush, flushCanFail bool) {
	base := vhWPlain{rec}
	switch verifChoose("shape", 8) {
	case 0:
		return base, false, false
	case 1:
		return vhWFlusher{base}, true, false
	case 2:
		return vhWFlushErr{base}, true, true
	case 3:
		return vhWBoth{base}, true, true
	case 4:
		return vhWWrap{base, vhWFlusher{base}}, true, false
	case 5:
		return vhWWrap{base, vhWWrap{base, vhWBoth{base}}}, true, true
	case 6:
		return vhWWrap{base, base}, false, false
	default:
		return vhWWrap{base, vhWFlushErr{base}}, true, true
	}
}

func vhC16Messages() []*Message {
	m1 := &Message{}
	m1.AppendData("a")
	if n := verifParam("LONG", 0); n > 0 {
		// one single line of n bytes (buffer sizes of a batching writer are typical thresholds)
		b := make([]byte, n)
		for i := range b {
			b[i] = 'a' + byte(i%26)
		}
		m1 = &Message{ID: ID("9")}
		m1.AppendData(string(b))
	}
	m2 := &Message{ID: ID("7")}
	m2.AppendData("b\nc")
	m3 := &Message{} // nothing to write
	m4 := &Message{Retry: 1500 * time.Millisecond}
	m4.AppendData("r")
	return []*Message{m1, m2, m3, m4}
}

func vhC16Session() {
	rec := &vhRec{h: http.Header{}, failAt: verifNondetInt("failat", -1, 12)}
	if verifChoose("preset-content-type", 2) == 1 {
		rec.h["Content-Type"] = []string{"application/json"} // a middleware default
	}
	w, canFlush, flushCanFail := vhMakeWriter(rec)
	req := &http.Request{Header: http.Header{}}
	sess, err := Upgrade(w, req)
	if !canFlush {
		verifAssert(err == ErrUpgradeUnsupported && sess == nil, "C16/Upgrade/non-flushing-writer-refused")
		verifAssert(len(rec.log) == 0, "C16/Upgrade/refusal-touches-nothing")
		return
	}
	verifAssert(err == nil && sess != nil, "C16/Upgrade/flushing-writer-accepted")
	verifAssert(len(rec.log) == 0, "C16/Upgrade/sends-nothing-by-itself")
	msgs := vhC16Messages()
	want := ""      // concatenation of encodings of successful Sends
	failedAt := -1  // op index at which the injected failure surfaced
	wantPre := ""
	k := verifParam("K", 3)
	for op := 0; op < k; op++ {
		logBefore := len(rec.log)
		isSend := verifChoose("op", 2) == 0
		var opErr error
		var enc string
		if isSend {
			m := msgs[verifChoose("msg", len(msgs))]
			enc = m.String()
			opErr = sess.Send(m)
		} else {
			opErr = sess.Flush()
		}
		// did the injected failure happen inside this call?
		injected := false
		for _, e := range rec.log[logBefore:] {
			if e.failed {
				injected = true
			}
		}
		if injected {
			verifAssert(opErr == vhErrIO, "C16/Session/injected-error-returned-by-the-call-where-it-happened")
			if failedAt < 0 {
				wantPre = want // what had been sent completely when the fault hit
			}
			failedAt = op
			verifCover("C16/Session/failure-surfaced")
			// the caller may keep using the session (the fault was transient): the protocol
			// rules still apply to what follows
			continue
		}
		verifAssert(opErr == nil, "C16/Session/no-error-without-failure")
		if isSend {
			want += enc
		} else if failedAt < 0 {
			// Flush pushes everything sent so far: the last event in the log is a successful flush
			// that follows the last write (or nothing was ever written and the upgrade flush happened)
			lastWrite, lastFlush := -1, -1
			for i, e := range rec.log {
				if e.kind == vhEvWrite {
					lastWrite = i
				}
				if e.kind == vhEvFlush && !e.failed {
					lastFlush = i
				}
			}
			verifAssert(lastFlush > lastWrite, "C16/Session/flush-pushes-everything-sent-so-far")
		}
	}
	_ = failedAt
	_ = flushCanFail
	// monitor over the whole log
	body := ""
	ctFlushed := false // a successful flush happened while Content-Type was set
	upgraded := false
	headerCallsAfterUpgrade := 0
	for _, e := range rec.log {
		switch e.kind {
		case vhEvHeaderCall:
			if upgraded {
				headerCallsAfterUpgrade++
			}
		case vhEvFlush:
			if !e.failed && e.ctAtEvent {
				if !ctFlushed {
					upgraded = true
				}
				ctFlushed = true
			}
		case vhEvWrite:
			if !e.failed {
				verifAssert(e.ctAtEvent && ctFlushed, "C16/Session/content-type-set-and-flushed-before-first-body-byte")
				body += e.data
			}
		}
	}
	verifAssert(headerCallsAfterUpgrade == 0, "C16/Session/upgrade-happens-only-once")
	if failedAt < 0 {
		verifAssert(body == want, "C16/Session/body-is-concatenation-of-sent-encodings")
	} else {
		verifAssert(len(body) >= len(wantPre) && body[:len(wantPre)] == wantPre, "C16/Session/body-starts-with-all-fully-sent-messages")
	}
	if body != "" {
		verifCover("C16/Session/body-written")
	}
}

// ---- Server.ServeHTTP ----

type vhProvider struct {
	subs     []Subscription
	subErr   error
	logAtSub int
	rec      *vhRec
}

func (p *vhProvider) Subscribe(_ context.Context, s Subscription) error {
	p.subs = append(p.subs, s)
	p.logAtSub = len(p.rec.log)
	return p.subErr
}
func (p *vhProvider) Publish(*Message, []string) error  { return nil }
func (p *vhProvider) Shutdown(context.Context) error    { return nil }

var vhErrSubscribe = errors.New("verif: provider refuses")

func vhC16Serve() {
	rec := &vhRec{h: http.Header{}, failAt: -1}
	w, canFlush, _ := vhMakeWriter(rec)
	prov := &vhProvider{rec: rec}
	if verifNondetBool("subfails") {
		prov.subErr = vhErrSubscribe
		if verifChoose("suberr-kind", 2) == 1 {
			prov.subErr = ErrProviderClosed // the provider was shut down before the request arrived
		}
	}
	srv := &Server{Provider: prov}
	var chosen []string
	allowed := true
	onSessionCalled := false
	switch verifChoose("onsession", 5) {
	case 0: // no callback
	case 1:
		srv.OnSession = func(http.ResponseWriter, *http.Request) ([]string, bool) { onSessionCalled = true; return nil, true }
	case 2:
		srv.OnSession = func(http.ResponseWriter, *http.Request) ([]string, bool) {
			onSessionCalled = true
			return []string{}, true
		}
	case 3:
		chosen = []string{verifNondetString("topic", 1), "t2"}[:1+verifChoose("ntopics", 2)]
		srv.OnSession = func(http.ResponseWriter, *http.Request) ([]string, bool) { onSessionCalled = true; return chosen, true }
	case 4:
		allowed = false
		srv.OnSession = func(http.ResponseWriter, *http.Request) ([]string, bool) {
			onSessionCalled = true
			return []string{"x"}, false
		}
	}
	req := &http.Request{Header: http.Header{}}
	hdr, hdrPresent := "", false
	switch verifChoose("hdr", 3) {
	case 0:
	case 1:
		hdr, hdrPresent = verifNondetString("lastid", verifParam("N", 3)), true
		req.Header["Last-Event-Id"] = []string{hdr}
	case 2:
		hdr, hdrPresent = verifNondetString("lastid", 1), true
		req.Header["Last-Event-Id"] = []string{hdr, "second"}
	}

	srv.ServeHTTP(w, req)

	got500 := false
	for _, e := range rec.log {
		if e.kind == vhEvWriteHeader && e.code == http.StatusInternalServerError {
			got500 = true
		}
	}
	if !canFlush {
		verifAssert(got500, "C16/Serve/500-when-writer-cannot-flush")
		verifAssert(len(prov.subs) == 0 && !onSessionCalled, "C16/Serve/no-subscription-when-writer-cannot-flush")
		return
	}
	if !allowed {
		verifAssert(len(prov.subs) == 0, "C16/Serve/rejected-session-not-subscribed")
		verifAssert(len(rec.log) == 0, "C16/Serve/writes-nothing-of-its-own-when-rejected")
		verifCover("C16/Serve/rejected")
		return
	}
	verifAssert(len(prov.subs) == 1, "C16/Serve/subscribed-exactly-once")
	if len(prov.subs) != 1 {
		return
	}
	sub := prov.subs[0]
	verifAssert(prov.logAtSub == 0, "C16/Serve/nothing-written-before-subscribing")
	// Last-Event-ID: unset when absent, empty or invalid, else the first header value
	wantSet := hdrPresent && hdr != "" && !vhHasNL(hdr)
	verifAssert(sub.LastEventID.IsSet() == wantSet, "C16/Serve/last-event-id-set-iff-present-nonempty-valid")
	if wantSet {
		verifAssert(sub.LastEventID.String() == hdr, "C16/Serve/last-event-id-value")
		verifCover("C16/Serve/last-event-id-passed")
	}
	// topics
	if len(chosen) > 0 {
		ok := len(sub.Topics) == len(chosen)
		if ok {
			for i := range chosen {
				ok = verifAnd(ok, sub.Topics[i] == chosen[i])
			}
		}
		verifAssert(ok, "C16/Serve/topics-chosen-by-OnSession")
	} else {
		verifAssert(len(sub.Topics) == 1 && sub.Topics[0] == DefaultTopic, "C16/Serve/default-topic-when-none-chosen")
	}
	_, isSession := sub.Client.(*Session)
	verifAssert(isSession, "C16/Serve/client-is-the-session")
	// a second request on the same Server without a Last-Event-ID header: nothing of the first
	// request's ID (or of anything else it carried) is subscribed with
	if prov.subErr == nil {
		recB := &vhRec{h: http.Header{}, failAt: -1}
		srv.ServeHTTP(vhWFlusher{vhWPlain{recB}}, &http.Request{Header: http.Header{}})
		verifAssert(len(prov.subs) == 2, "C16/Serve/second-request-subscribed")
		if len(prov.subs) == 2 {
			verifAssert(!prov.subs[1].LastEventID.IsSet(), "C16/Serve/second-request-without-header-has-no-last-event-id")
		}
	}
	// a later request on another server that chooses no topics is still subscribed to the
	// default topic, whatever this session's OnSession chose
	rec2 := &vhRec{h: http.Header{}, failAt: -1}
	prov2 := &vhProvider{rec: rec2}
	(&Server{Provider: prov2}).ServeHTTP(vhWFlusher{vhWPlain{rec2}}, &http.Request{Header: http.Header{}})
	verifAssert(len(prov2.subs) == 1 && len(prov2.subs[0].Topics) == 1 && prov2.subs[0].Topics[0] == "" && DefaultTopic == "", "C16/Serve/later-session-still-gets-the-default-topic")
	if prov.subErr != nil {
		verifAssert(got500, "C16/Serve/500-when-provider-refuses-before-anything-was-sent")
		verifCover("C16/Serve/subscribe-error")
	} else {
		verifAssert(len(rec.log) == 0, "C16/Serve/no-writes-of-its-own-on-normal-end")
	}
}
