package sse

import (
	"net"
	"context"
	"errors"
	"io"
	"net/http"
	"net/url"
	"strings"
	"time"
)

// C10 / C11 / C12 — the Connect loop against a scripted transport.
// The same harness natively (replay) drives the real net/http client through
// Client.Transport; under the executor (*http.Client).Do is a stub that calls
// Transport.RoundTrip and wraps failures in *url.Error as the real one does.

// vhTempErr: a validator verdict that calls itself temporary (must still end Connect at once)
type vhTempErr struct{}

func (vhTempErr) Error() string   { return "verif: temporary-looking validator error" }
func (vhTempErr) Temporary() bool { return true }
func (vhTempErr) Timeout() bool   { return true }

var (
	vhErrTransport = errors.New("verif: scripted transport failure")
	vhErrValidator = errors.New("verif: response rejected by validator")
	vhErrGetBody   = errors.New("verif: GetBody failed")
)

// vhCtx is a context whose cancellation the harness controls.
type vhCtx struct {
	done   chan struct{}
	err    error
	onDone func() // called the first time Done() is asked for
}

func (c *vhCtx) Deadline() (time.Time, bool) { return time.Time{}, false }
func (c *vhCtx) Done() <-chan struct{} {
	if f := c.onDone; f != nil {
		c.onDone = nil
		f()
	}
	return c.done
}
// Err synchronises like the real context does (it is a scheduling point of the interpreted
// goroutines): non-nil exactly once the done channel is closed.
func (c *vhCtx) Err() error {
	verifYield()
	select {
	case <-c.done:
		return c.err
	default:
		return nil
	}
}
func (c *vhCtx) Value(any) any               { return nil }
func (c *vhCtx) cancel() {
	if c.err == nil {
		verifYield()
		c.err = context.Canceled
		close(c.done)
	}
}

type vhAttemptRec struct {
	hdrPresent bool
	hdr        string
	hdrCount   int
	body       io.ReadCloser
	kind       int
	stream     []byte
	cleanEnd   bool // body ended with io.EOF (dispatching a pending event)
	readErr    error
	transportErr error
}

var vhErrDial error = &net.OpError{Op: "dial", Net: "tcp", Err: errors.New("verif: connection refused")}

type vhBodyRC struct {
	r      *vhReader
	env    *vhConnEnv
	closed bool
	reads  int
}

func (b *vhBodyRC) Read(p []byte) (int, error) {
	b.reads++
	// cancellation while the body is being read: the body then fails with the context's error
	if b.env.cancelInBody && b.r.pos >= b.env.cancelAfter && b.env.ctx.err == nil {
		b.env.ctx.cancel()
	}
	if b.env.ctx.err != nil && b.env.cancelInBody {
		return 0, b.env.ctx.err
	}
	return b.r.Read(p)
}
func (b *vhBodyRC) Close() error { b.closed = true; return nil }

type vhReqBody struct{ id int }

func (b *vhReqBody) Read(p []byte) (int, error) { return 0, io.EOF }
func (b *vhReqBody) Close() error               { return nil }

type vhConnEnv struct {
	ctx          *vhCtx
	attempts     []vhAttemptRec
	maxAttempts  int
	cancelInBody bool
	cancelAfter  int
	getBodyCalls int
	bodies       []*vhReqBody
	retries      []time.Duration // durations given to OnRetry
	retryErrs    []error
	tplMask      int
	scriptOver   bool
	verdict      error
	getBodyFailed bool
	rejectedBody *vhBodyRC // the body of the response the validator rejected
	attemptsAtGetBodyFailure int
}

func (env *vhConnEnv) RoundTrip(req *http.Request) (*http.Response, error) {
	rec := vhAttemptRec{}
	if v, ok := req.Header["Last-Event-Id"]; ok {
		rec.hdrPresent = true
		rec.hdrCount = len(v)
		if len(v) > 0 {
			rec.hdr = v[0]
		}
	}
	rec.body = req.Body
	if len(env.attempts) >= env.maxAttempts {
		// the script is over: end the scenario by cancelling the request context
		env.scriptOver = true
		env.ctx.cancel()
		rec.kind = 3
		env.attempts = append(env.attempts, rec)
		return nil, env.ctx.err
	}
	// cancellation before the request is sent: the transport fails with the context's error
	if verifParam("CANCEL", 1) == 1 && verifChoose("cancel-before-do", 2) == 1 {
		env.ctx.cancel()
	}
	if env.ctx.err != nil {
		rec.kind = 3
		env.attempts = append(env.attempts, rec)
		return nil, env.ctx.err
	}
	rec.kind = verifChoose("attempt-kind", 3)
	switch rec.kind {
	case 0:
		// the failure may be an error that merely looks like a context error (a transport's own
		// timeout or inner cancellation) while the request context is still live
		rec.transportErr = vhErrTransport
		if verifParam("SENTINEL", 0) == 1 && verifChoose("transport-err", 2) == 1 {
			rec.transportErr = context.DeadlineExceeded
		}
		if verifParam("DIALERR", 0) == 1 && verifChoose("transport-err-kind", 2) == 1 {
			rec.transportErr = vhErrDial // the connection could not even be established
		}
		env.attempts = append(env.attempts, rec)
		return nil, rec.transportErr
	case 1:
		env.attempts = append(env.attempts, rec)
		env.rejectedBody = &vhBodyRC{r: &vhReader{}, env: env}
		return &http.Response{StatusCode: 418, Header: http.Header{}, Body: env.rejectedBody}, nil
	}
	// a 200 response streaming a template
	var s []byte
	// the templates enabled by TPLMASK (bit i = template i)
	var enabled []int
	for i := 0; i < 9; i++ {
		if env.tplMask&(1<<uint(i)) != 0 {
			enabled = append(enabled, i)
		}
	}
	switch enabled[verifChoose("tpl", len(enabled))] {
	case 0:
		s = []byte("data:x\n\n")
	case 1:
		s = append(append([]byte("id:"), verifNondetBytes("idhole", 1)...), []byte("\n\n")...)
	case 2:
		s = append(append([]byte("id:"), verifNondetBytes("idhole", 1)...), []byte("\ndata:x")...) // cut before its blank line
	case 3:
		s = []byte("")
	case 4:
		d := verifNondetBytes("retrydigits", verifParam("RDIGITS", 2))
		s = append(append([]byte("retry:"), d...), []byte("\n\n")...)
	case 5:
		s = []byte("id:7\n\nid:\n\n") // an empty id resets the stored one
	case 6:
		// a later id field on the same connection (possibly NUL: then ignored) followed by an event without id
		s = append(append([]byte("id:7\n\nid:"), verifNondetBytes("idhole", 1)...), []byte("\ndata:x\n\n")...)
	case 7:
		// a retry field in a block the connection is cut in (no blank line follows): the
		// reconnection time is set when the field is processed, not when an event is dispatched
		d := verifNondetBytes("retrydigits", verifParam("RDIGITS", 2))
		s = append(append([]byte("retry:"), d...), []byte("\ndata:x")...)
	case 8:
		// an event whose last line is terminated but whose blank line never comes: at a clean
		// end of the body it is dispatched (go-sse's adaptation), and its id counts
		s = append(append([]byte("id:7\n\nid:"), verifNondetBytes("idhole", 1)...), []byte("\ndata:x\n")...)
	}
	r := &vhReader{data: s}
	switch verifChoose("endkind", 2) {
	case 0:
		rec.cleanEnd = true
	case 1:
		r.endErr = vhErrRead
		if verifParam("SENTINEL", 0) == 1 && verifChoose("read-err", 2) == 1 {
			r.endErr = context.Canceled // not the request context's doing
		}
		rec.readErr = r.endErr
	}
	if verifParam("CANCEL", 1) == 1 && verifChoose("cancel-in-body", 2) == 1 {
		env.cancelInBody = true
		env.cancelAfter = verifChoose("cancel-after", len(s)+1)
	} else {
		env.cancelInBody = false
	}
	rec.stream = s
	env.attempts = append(env.attempts, rec)
	return &http.Response{StatusCode: 200, Header: http.Header{"Content-Type": []string{"text/event-stream"}}, Body: &vhBodyRC{r: r, env: env}}, nil
}

func vhC10Connect() { vhConnect() }
func vhC11Connect() { vhConnect() }
func vhC12Connect() { vhConnect() }

type vhConnSetupT struct {
	env            *vhConnEnv
	c              *Connection
	bodyKind       int
	getBodyFailsAt int
	initial        time.Duration
}

// vhConnSetup: a Connection on the scripted transport with the given MaxRetries.
func vhConnSetup(maxRetries int) vhConnSetupT {
	env := &vhConnEnv{ctx: &vhCtx{done: make(chan struct{})}, tplMask: verifParam("TPLMASK", 63)}
	// a successful connection resets the count, so the script length is bounded instead
	env.maxAttempts = verifParam("A", 3)
	initial := 2 * time.Millisecond
	if verifParam("HOLD", 0) == 1 {
		initial = time.Hour // a wait that does not elapse within the scenario
	}
	cl := Client{
		HTTPClient: &http.Client{Transport: env},
		Backoff:    Backoff{InitialInterval: initial, Multiplier: 1, Jitter: -1, MaxRetries: maxRetries},
		ResponseValidator: func(r *http.Response) error {
			if r.StatusCode != 200 {
				if verifParam("TEMPVERDICT", 0) == 1 && verifChoose("verdict-kind", 2) == 1 {
					env.verdict = vhTempErr{}
					return env.verdict
				}
				env.verdict = vhErrValidator
				return vhErrValidator
			}
			return nil
		},
	}
	cl.OnRetry = func(err error, d time.Duration) {
		env.retries = append(env.retries, d)
		env.retryErrs = append(env.retryErrs, err)
		// cancellation while waiting for the retry timer
		if verifParam("HOLD", 0) == 1 {
			// ... long before the (one hour) wait is over: the timer does not fire any more
			verifTimerHold()
			env.ctx.cancel()
		} else if verifParam("CANCEL", 1) == 1 && verifChoose("cancel-in-wait", 2) == 1 {
			env.ctx.cancel()
		}
	}
	req := (&http.Request{Method: "GET", URL: &url.URL{Scheme: "http", Host: "verif.invalid", Path: "/"}, Header: http.Header{}}).WithContext(env.ctx)
	// request body kinds
	bodyKind := verifChoose("bodykind", verifParam("BODYKINDS", 5))
	mkBody := func() *vhReqBody {
		b := &vhReqBody{id: len(env.bodies)}
		env.bodies = append(env.bodies, b)
		return b
	}
	getBodyFailsAt := -1
	switch bodyKind {
	case 0: // no body
	case 1:
		req.Body = http.NoBody
	case 2:
		req.Body = mkBody()
		req.GetBody = func() (io.ReadCloser, error) {
			env.getBodyCalls++
			return mkBody(), nil
		}
	case 3:
		req.Body = mkBody() // cannot be re-obtained
	case 4:
		req.Body = mkBody()
		getBodyFailsAt = verifChoose("getbody-fails-at", 2)
		req.GetBody = func() (io.ReadCloser, error) {
			env.getBodyCalls++
			if env.getBodyCalls-1 == getBodyFailsAt {
				env.getBodyFailed = true
				env.attemptsAtGetBodyFailure = len(env.attempts)
				return nil, vhErrGetBody
			}
			return mkBody(), nil
		}
	}
	c := vhNewConn(&cl, req)
	var events []Event
	c.SubscribeToAll(func(e Event) { events = append(events, e) })

	return vhConnSetupT{env: env, c: c, bodyKind: bodyKind, getBodyFailsAt: getBodyFailsAt, initial: initial}
}

func vhConnect() {
	maxRetries := []int{-1, 1, 2}[verifChoose("maxretries", verifParam("MRCHOICES", 3))]
	su := vhConnSetup(maxRetries)
	env, c, bodyKind, getBodyFailsAt, initial := su.env, su.c, su.bodyKind, su.getBodyFailsAt, su.initial

	err := c.Connect()

	n := len(env.attempts)
	// ---------------- C11: Connect returns only for a reason ----------------
	verifAssert(err != nil, "C11/Connect/never-returns-nil")
	ctxDone := env.ctx.err != nil
	if ctxDone {
		verifAssert(err == env.ctx.err, "C11/Connect/returns-the-context-error-once-the-context-is-done")
		verifCover("C11/Connect/cancelled")
	} else {
		verifAssert(err != context.Canceled && err != context.DeadlineExceeded, "C11/Connect/context-error-only-when-context-is-done")
		var ce *ConnectionError
		isCE := errors.As(err, &ce)
		verifAssert(isCE, "C11/Connect/other-errors-are-wrapped-in-ConnectionError")
		if isCE && n > 0 {
			last := env.attempts[n-1]
			bodyResetFailed := ce.Err == ErrNoGetBody || ce.Err == vhErrGetBody
			switch {
			case bodyResetFailed:
				verifCover("C11/Connect/body-reset-failed")
			case last.kind == 1:
				verifAssert(ce.Err == env.verdict, "C11/Connect/validator-failure-returned-at-once")
				// "at once": Connect does not go on to read the rejected response, which may stay
				// open for as long as the server likes
				verifAssert(env.rejectedBody != nil && env.rejectedBody.reads == 0, "C11/Connect/rejected-response-is-not-read")
				verifCover("C11/Connect/validator-rejected")
			case last.kind == 0:
				verifAssert(ce.Err == last.transportErr, "C11/Connect/last-attempt-error-wrapped")
			case last.kind == 2:
				spec := vhSpecInterpretEx(last.stream, true, false, false, "")
				switch {
				case last.readErr != nil:
					verifAssert(ce.Err == last.readErr, "C11/Connect/read-error-reported-as-itself")
				case spec.end == vhEndUnexpected:
					verifAssert(ce.Err == ErrUnexpectedEOF, "C11/Connect/ErrUnexpectedEOF-only-for-clean-end-mid-line")
				default:
					verifAssert(ce.Err == io.EOF, "C11/Connect/clean-end-is-EOF")
				}
			}
			if !bodyResetFailed && last.kind != 1 {
				// Connect gave up although nothing permanent happened: then the retries must
				// really be exhausted - MaxRetries further attempts were made since the last
				// successful connection (or since the first failure)
				series := 0
				for _, a := range env.attempts {
					if a.kind == 2 {
						series = 1
					} else {
						series++
					}
				}
				if maxRetries > 0 {
					verifAssert(series == maxRetries+1, "C11/Connect/returns-only-when-retries-are-exhausted")
					verifAssert(series == maxRetries+1, "C12/Connect/a-successful-connection-resets-the-retry-count")
				} else {
					verifAssert(series == 1, "C11/Connect/no-retries-configured-returns-after-first-failure")
				}
				verifCover("C11/Connect/retries-exhausted")
			}
		}
	}
	// a rejected response or a failed body reset ends Connect at once: nothing follows it
	for i, a := range env.attempts {
		if a.kind == 1 {
			verifAssert(i == n-1, "C11/Connect/no-attempt-after-validator-rejection")
		}
	}

	// ---------------- C12: retry accounting ----------------
	// consecutive failed attempts without an intervening successful connection
	if !ctxDone {
		streak := 0
		for _, a := range env.attempts {
			if a.kind == 2 {
				streak = 1 // the drop of a successful connection is the first failure of a new series
			} else {
				streak++
			}
			if maxRetries > 0 {
				verifAssert(streak <= maxRetries+1, "C12/Connect/at-most-MaxRetries-retries-without-a-successful-connection")
			}
		}
		if maxRetries < 0 {
			verifAssert(n <= 1 && len(env.retries) == 0, "C12/Connect/negative-MaxRetries-means-no-retries")
		}
	}
	// OnRetry once before every further attempt, with the wait actually used
	if ctxDone {
		verifAssert(len(env.retries) >= n-1, "C12/Connect/OnRetry-before-each-retry")
	} else if n > 0 {
		wantRetries := n - 1
		var ce2 *ConnectionError
		if errors.As(err, &ce2) && (ce2.Err == ErrNoGetBody || ce2.Err == vhErrGetBody) {
			wantRetries = n // the last retry was started (OnRetry, wait) and failed while resetting the body
		}
		verifAssert(len(env.retries) == wantRetries, "C12/Connect/OnRetry-once-per-retry")
	}
	if verifSymbolic() {
		resets := verifTimerResets()
		verifAssert(len(resets) == len(env.retries), "C12/Connect/timer-reset-once-per-OnRetry")
		if len(resets) == len(env.retries) {
			for i := range resets {
				verifAssert(resets[i] == int64(env.retries[i]), "C12/Connect/OnRetry-gets-the-wait-actually-used")
			}
		}
	}
	// the k-th wait: Jitter -1, Multiplier 1 => b_k = b_1 = InitialInterval or the server's retry value
	for i, d := range env.retries {
		// the preceding connection is attempt i; did it (or an earlier one since the last success) send a retry field?
		want := initial
		for j := i; j >= 0; j-- {
			a := env.attempts[j]
			if a.kind == 2 {
				spec := vhSpecInterpretEx(a.stream, true, false, false, "")
				if len(spec.retries) > 0 {
					if r := spec.retries[len(spec.retries)-1]; r > 0 {
						want = time.Duration(r) * time.Millisecond
					}
					verifCover("C12/Connect/server-retry-used")
				}
				break
			}
		}
		if env.cancelInBody {
			continue // the stream of that attempt was cut by cancellation at an arbitrary offset
		}
		if env.attempts[i].kind != 2 && want != initial {
			// later waits of a series started by a server retry value go through the
			// floating-point growth step; they are decided in vhC12Logic, not here
			continue
		}
		verifAssert(d == want, "C12/Connect/wait-is-initial-interval-or-server-retry")
	}

	vhCheckC10(env, bodyKind, getBodyFailsAt, maxRetries, err)
	_ = strings.TrimSpace
}

// vhCheckC10: the C10 obligations over the attempts the transport has seen (over one
// Connect call or several on the same Connection).
func vhCheckC10(env *vhConnEnv, bodyKind, getBodyFailsAt, maxRetries int, err error) {
	n := len(env.attempts)
	ctxDone := env.ctx.err != nil
	// ---------------- C10: Last-Event-ID and a fresh body on every reconnect ----------------
	lastID := ""
	for i, a := range env.attempts {
		if i == 0 {
			verifAssert(!a.hdrPresent, "C10/Connect/first-request-carries-no-Last-Event-ID")
		} else {
			if lastID == "" {
				verifAssert(!a.hdrPresent, "C10/Connect/no-header-when-last-id-empty")
			} else {
				verifAssert(a.hdrPresent && a.hdrCount == 1 && a.hdr == lastID, "C10/Connect/header-is-last-dispatched-event-id")
				verifCover("C10/Connect/header-sent")
			}
			switch bodyKind {
			case 0:
				verifAssert(a.body == nil, "C10/Connect/no-body-stays-no-body")
			case 1:
				verifAssert(a.body == http.NoBody, "C10/Connect/NoBody-stays-NoBody")
			case 2, 4:
				fresh := a.body != nil
				for j := 0; j < i; j++ {
					if env.attempts[j].body == a.body {
						fresh = false
					}
				}
				verifAssert(fresh, "C10/Connect/body-re-obtained-through-GetBody-for-every-retry")
			case 3:
				verifAssert(false, "C10/Connect/consumed-body-without-GetBody-never-resent")
				verifAssert(false, "C11/Connect/body-reset-failure-returns-at-once")
			}
		}
		if a.kind == 2 && !(env.cancelInBody && i == n-1) {
			spec := vhSpecInterpretEx(a.stream, true, false, a.cleanEnd, lastID)
			if k := len(spec.events); k > 0 {
				lastID = spec.events[k-1].LastEventID
			}
		}
	}
	if env.getBodyFailed {
		verifAssert(n == env.attemptsAtGetBodyFailure && env.getBodyCalls == getBodyFailsAt+1, "C10/Connect/no-request-after-GetBody-failed")
		verifAssert(n == env.attemptsAtGetBodyFailure, "C11/Connect/body-reset-failure-returns-at-once")
	}
	if !ctxDone {
		var ce *ConnectionError
		if errors.As(err, &ce) {
			if bodyKind == 3 && maxRetries > 0 && n >= 1 && env.attempts[n-1].kind != 1 {
				verifAssert(ce.Err == ErrNoGetBody, "C10/Connect/ErrNoGetBody-when-body-cannot-be-re-obtained")
				verifAssert(n == 1, "C10/Connect/no-second-request-without-GetBody")
			}
			if bodyKind == 4 && ce.Err == vhErrGetBody {
				verifAssert(env.getBodyCalls == getBodyFailsAt+1 && n == getBodyFailsAt+1, "C10/Connect/GetBody-error-ends-Connect-without-further-request")
				verifCover("C10/Connect/getbody-failed")
			}
		}
	}
}

// Connect called again on the same Connection after it returned: its first attempt is a
// reconnection like any other (Last-Event-ID of the last dispatched event, a body
// re-obtained through GetBody). MaxRetries -1: every Connect makes exactly one attempt.
func vhC10Reconnect() {
	maxRetries := verifParam("RMAX", -1)
	su := vhConnSetup(maxRetries)
	env := su.env
	var err error
	for k := 0; k < env.maxAttempts; k++ {
		start := len(env.attempts)
		err = su.c.Connect()
		verifAssert(err != nil, "C11/Connect/never-returns-nil")
		if env.ctx.err != nil || env.getBodyFailed {
			break
		}
		var ce *ConnectionError
		if !errors.As(err, &ce) {
			verifAssert(false, "C11/Connect/other-errors-are-wrapped-in-ConnectionError")
			break
		}
		if ce.Err == ErrNoGetBody || ce.Err == vhErrGetBody {
			break
		}
		// every Connect call has the whole retry budget: it gives up only after MaxRetries
		// further attempts without a successful connection, counted within this call
		call := env.attempts[start:]
		if n := len(call); n > 0 && call[n-1].kind != 1 {
			series := 0
			for _, a := range call {
				if a.kind == 2 {
					series = 1
				} else {
					series++
				}
			}
			if maxRetries > 0 {
				verifAssert(series == maxRetries+1, "C11/Connect/returns-only-when-retries-are-exhausted")
			} else {
				verifAssert(series == 1, "C11/Connect/no-retries-configured-returns-after-first-failure")
			}
			verifCover("C11/Connect/retries-exhausted")
		}
	}
	vhCheckC10(env, su.bodyKind, su.getBodyFailsAt, maxRetries, err)
}

// The request context ends while Connect sleeps between two attempts, long before the wait
// is over: Connect returns the context's error then, not when the wait would have ended.
func vhC11CancelInWait() {
	su := vhConnSetup(2)
	var err error
	finished := vhWithDeadline(3*time.Second, func() { err = su.c.Connect() })
	verifAssert(finished, "C11/Connect/returns-once-the-context-is-done-during-the-wait")
	if finished {
		verifAssert(err != nil, "C11/Connect/never-returns-nil")
		if su.env.ctx.err != nil {
			verifAssert(err == su.env.ctx.err, "C11/Connect/returns-the-context-error-once-the-context-is-done")
			verifCover("C11/Connect/cancelled")
		}
	}
}

// vhWithDeadline runs f; natively it gives up waiting after d and reports false (f keeps
// running in its goroutine). Under the executor a call that never returns is a hang.
func vhWithDeadline(d time.Duration, f func()) bool {
	if verifSymbolic() {
		f()
		return true
	}
	done := make(chan struct{})
	go func() { defer close(done); f() }()
	select {
	case <-done:
		return true
	case <-time.After(d):
		return false
	}
}

// Two Connections made from the same *http.Request are independent: preparing a
// reconnection of one (here: one that has no ID and deletes the header) does not change
// what the other one sends.
func vhC10TwoConns() {
	req := &http.Request{Method: "GET", URL: &url.URL{Scheme: "http", Host: "verif.invalid", Path: "/"}, Header: http.Header{}}
	cl := &Client{}
	a := cl.NewConnection(req)
	b := cl.NewConnection(req)
	id := verifNondetString("id", 1)
	verifAssume(!vhHasNL(id) && !vhHasNUL(id))
	id = "a" + id
	_ = a.read(&vhReader{data: []byte("id:" + id + "\n\n")}, func(time.Duration) {})
	_ = b.read(&vhReader{data: []byte("data:x\n\n")}, func(time.Duration) {})
	// both prepare a reconnection, in either order
	first, second := a, b
	if verifChoose("order", 2) == 1 {
		first, second = b, a
	}
	for k := 0; k < 2; k++ { // the first call of each marks the first attempt, the second one resets
		verifAssert(first.resetRequest() == nil && second.resetRequest() == nil, "C10/TwoConns/reset")
	}
	ha, oka := a.request.Header["Last-Event-Id"]
	_, okb := b.request.Header["Last-Event-Id"]
	verifAssert(oka && len(ha) == 1 && ha[0] == id, "C10/Connect/header-is-last-dispatched-event-id")
	verifAssert(!okb, "C10/Connect/no-header-when-last-id-empty")
	verifCover("C10/TwoConns/ran")
}
