package sse

import (
	"io"
	"net/http"
)

// Reference oracles, written from the specifications and independently of
// go-sse's structure. They are executed by the same symbolic engine as the
// implementation (so the solver sees both sides) and natively at replay.

// ---- WHATWG event-stream interpretation (HTML standard 9.2.5-9.2.6) ----

const (
	vhEndClean      = 0 // stream ended after a terminated line (or empty stream)
	vhEndUnexpected = 1 // stream ended in a non-empty unterminated line
)

type vhSpecResult struct {
	events  []Event
	retries []int64 // values handed to the retry callback (connection flavour)
	end     int
	// index into events: number of events dispatched before each retry (ordering witness)
	retryAt []int
}

// vhSpecInterpret interprets the complete byte stream.
// conn selects the Connection flavour (retry counts as "seen"); strict selects
// the unadapted browser behaviour (dispatch only when the data buffer is non-empty,
// no end-of-stream dispatch) used by C02.
func vhSpecInterpret(stream []byte, conn bool, strict bool, initialID string) vhSpecResult {
	return vhSpecInterpretEx(stream, conn, strict, !strict, initialID)
}

// vhSpecInterpretEx: needData = dispatch only when the data buffer is non-empty
// (browser behaviour); flushAtEnd = dispatch a pending event at a clean end of stream.
func vhSpecInterpretEx(stream []byte, conn bool, needData bool, flushAtEnd bool, initialID string) vhSpecResult {
	strict := needData
	var res vhSpecResult
	s := stream
	// A leading BOM is dropped (only at the very start of the stream).
	if len(s) >= 3 && s[0] == 0xEF && s[1] == 0xBB && s[2] == 0xBF {
		s = s[3:]
	}
	idBuf := initialID
	dataBuf := []byte{}
	typeBuf := ""
	seen := false
	hasData := false

	dispatch := func() {
		fire := seen
		if strict {
			fire = hasData
		}
		if fire {
			d := dataBuf
			if len(d) > 0 {
				d = d[:len(d)-1] // strip the final LF
			}
			res.events = append(res.events, Event{LastEventID: idBuf, Type: typeBuf, Data: string(d)})
		}
		dataBuf = []byte{}
		typeBuf = ""
		seen = false
		hasData = false
	}

	pos := 0
	for pos < len(s) {
		// find end of line
		e := pos
		for e < len(s) && s[e] != '\n' && s[e] != '\r' {
			e++
		}
		if e == len(s) {
			// unterminated last line: non-empty by construction (pos < len(s))
			res.end = vhEndUnexpected
			return res
		}
		line := s[pos:e]
		// terminator: CRLF is one terminator
		next := e + 1
		if s[e] == '\r' && next < len(s) && s[next] == '\n' {
			next++
		}
		pos = next

		if len(line) == 0 {
			dispatch()
			continue
		}
		if line[0] == ':' {
			continue
		}
		// name / value
		c := 0
		for c < len(line) && line[c] != ':' {
			c++
		}
		name := string(line[:c])
		var value []byte
		if c < len(line) {
			value = line[c+1:]
			if len(value) > 0 && value[0] == ' ' {
				value = value[1:]
			}
		}
		switch name {
		case "data":
			dataBuf = append(dataBuf, value...)
			dataBuf = append(dataBuf, '\n')
			seen = true
			hasData = true
		case "event":
			typeBuf = string(value)
			seen = true
		case "id":
			nul := false
			for _, b := range value {
				if b == 0 {
					nul = true
				}
			}
			if !nul {
				idBuf = string(value)
				seen = true
			}
		case "retry":
			ok := len(value) > 0
			var n int64
			for _, b := range value {
				if b < '0' || b > '9' {
					ok = false
					break
				}
				n = n*10 + int64(b-'0')
			}
			if ok && conn {
				res.retries = append(res.retries, n)
				res.retryAt = append(res.retryAt, len(res.events))
				seen = true
			}
		}
	}
	// clean end: adaptation 3 — a pending event whose last line was terminated is dispatched
	if flushAtEnd {
		dispatch()
	}
	res.end = vhEndClean
	return res
}

// ---- scripted reader: hands out a byte string in chunks of symbolic sizes ----

type vhReader struct {
	data    []byte
	pos     int
	endErr  error // error returned after the last byte (nil = io.EOF)
	seg     bool  // fork over every chunk size (all segmentations); else one chunk
	coarse  bool  // with seg: only chunk sizes {1, half of what fits, all that fits}
	budget  int   // with coarse: number of reads that may still fork (then: all that fits)
	bytewise bool // one byte per Read: every boundary is a cut point
	cutAt   int   // > 0: the first Read returns at most this many bytes, the rest follows
	eofWith bool  // return io.EOF / endErr together with the last bytes
	reads   int
	nread   int
}

func (r *vhReader) Read(p []byte) (int, error) {
	r.reads++
	if len(p) == 0 {
		return 0, nil
	}
	rest := len(r.data) - r.pos
	end := r.endErr
	if end == nil {
		end = io.EOF
	}
	if rest == 0 {
		return 0, end
	}
	maxn := rest
	if len(p) < maxn {
		maxn = len(p)
	}
	n := maxn
	if r.cutAt > 0 && r.pos < r.cutAt {
		if r.cutAt-r.pos < n {
			n = r.cutAt - r.pos
		}
	} else if r.bytewise {
		n = 1
	} else if r.seg && maxn > 1 {
		if r.coarse {
			if r.budget > 0 {
				r.budget--
				n = []int{maxn, (maxn + 1) / 2, 1}[verifChoose("chunk", 3)]
			}
		} else {
			n = 1 + verifChoose("chunk", maxn)
		}
	}
	copy(p, r.data[r.pos:r.pos+n])
	r.pos += n
	r.nread += n
	if r.pos == len(r.data) && r.eofWith {
		return n, end
	}
	return n, nil
}

// ---- line splitting promised by AppendData / AppendComment ----

// vhSpecLines splits s at CR, LF or CRLF; a terminator at the very end does
// not open a further empty line; "" has no lines.
func vhSpecLines(s string) []string {
	var out []string
	pos := 0
	for pos < len(s) {
		e := pos
		for e < len(s) && s[e] != '\n' && s[e] != '\r' {
			e++
		}
		out = append(out, s[pos:e])
		if e == len(s) {
			break
		}
		next := e + 1
		if s[e] == '\r' && next < len(s) && s[next] == '\n' {
			next++
		}
		pos = next
	}
	return out
}

func vhEventsEqual(a, b []Event) bool {
	if len(a) != len(b) {
		return false
	}
	r := true
	for i := range a {
		r = verifAnd(r, verifAnd(a[i].LastEventID == b[i].LastEventID, verifAnd(a[i].Type == b[i].Type, a[i].Data == b[i].Data)))
	}
	return r
}

// vhNewConn builds a Connection through the public constructor, so that harnesses do not
// depend on how the subscription tables are represented.
func vhNewConn(cl *Client, req *http.Request) *Connection {
	if cl == nil {
		cl = &Client{}
	}
	if req == nil {
		req = &http.Request{Method: "GET", Header: http.Header{}}
	}
	return cl.NewConnection(req)
}
