package sse

import (
	"net/http"
	"strconv"
	"strings"
	"time"
)

// C05 — end to end across reconnects, on the sequential data path that go-sse
// contributes: real replayer -> Upgrade/getSubscription -> Replay through a real
// Session -> bytes -> cut at an arbitrary offset -> real Connection.read ->
// resetRequest -> next attempt. Joe's part (replay-then-register is atomic, live
// delivery exactly once in Put order) is what C03/C04 decide and is assumed here.

type vhE2EWriter struct {
	h   http.Header
	buf []byte
}

func (w *vhE2EWriter) Header() http.Header         { return w.h }
func (w *vhE2EWriter) Write(p []byte) (int, error) { w.buf = append(w.buf, p...); return len(p), nil }
func (w *vhE2EWriter) WriteHeader(int)             {}
func (w *vhE2EWriter) Flush()                      {}

type vhPublished struct {
	msg  *Message
	id   string
	typ  string
	data string
}

func vhC05() {
	n := verifParam("MSGS", 2)
	attempts := verifParam("ATTEMPTS", 2)
	auto := verifParam("AUTO", 1) == 1
	// the replayer (large enough to hold what is published while the client is away)
	var rep Replayer
	if verifParam("VALID", 0) == 1 {
		v, _ := NewValidReplayer(time.Hour, auto)
		now := time.Unix(1000, 0)
		v.Now = func() time.Time { return now }
		rep = v
	} else {
		// exactly as large as needed to hold what is published while the client is away
		c := n
		if c < 2 {
			c = 2
		}
		f, _ := NewFiniteReplayer(c, auto)
		rep = f
	}
	topics := []string{DefaultTopic}
	// messages with symbolic payloads
	var msgs []*Message
	var pub []vhPublished
	for k := 0; k < n; k++ {
		m := &Message{}
		d := verifNondetString("data", verifParam("N", 2))
		if verifParam("TRAILNL", 0) == 1 {
			d += "\n\n" // the data ends in an empty line
		}
		m.AppendData(d)
		ty := ""
		if verifParam("NOTYPE", 0) == 0 && verifChoose("hastype", 2) == 1 {
			t := verifNondetString("type", 1)
			if tt, err := NewType(t); err == nil {
				m.Type = tt
				ty = t
			}
		}
		if !auto {
			m.ID = ID("m" + strconv.Itoa(k))
		}
		msgs = append(msgs, m)
		pub = append(pub, vhPublished{typ: ty, data: strings.Join(vhSpecLines(d), "\n")})
	}
	// timeline: message k is published in phase ph[k]; phases 0..2*attempts-1 alternate
	// "client away" (even, before attempt phase/2+1) and "while attempt is connected" (odd)
	nphase := 2 * attempts
	ph := make([]int, n)
	prev := 0
	for k := 0; k < n; k++ {
		ph[k] = prev + verifChoose("phase", nphase-prev)
		prev = ph[k]
	}
	next := 0 // next message to publish
	put := func(k int) *Message {
		m2, err := rep.Put(msgs[k], topics)
		verifAssert(err == nil && m2 != nil, "C05/put-accepted")
		pub[k].msg = m2
		pub[k].id = m2.ID.String()
		return m2
	}

	// the client
	req := &http.Request{Method: "GET", Header: http.Header{}}
	c := vhNewConn(nil, req)
	req = c.request // NewConnection clones the request: the clone is what resetRequest updates
	if l := verifParam("SMALLBUF", 0); l > 0 {
		c.Buffer(nil, l) // the scanner then compacts/refills its buffer within these short streams
	}
	var got []Event
	c.SubscribeToAll(func(e Event) { got = append(got, e) })
	srv := &Server{}
	if verifParam("ONSESSION", 0) == 1 {
		// the application picks the topics itself: resuming must work all the same
		srv.OnSession = func(http.ResponseWriter, *http.Request) ([]string, bool) { return []string{DefaultTopic}, true }
	}

	for a := 0; a < attempts; a++ {
		for next < n && ph[next] == 2*a { // published while the client is away
			put(next)
			next++
		}
		verifAssert(c.resetRequest() == nil, "C05/request-reset")
		// server side of this attempt
		w := &vhE2EWriter{h: http.Header{}}
		sess, err := Upgrade(w, req)
		verifAssert(err == nil, "C05/upgrade")
		sub, ok := srv.getSubscription(sess)
		verifAssert(ok, "C05/subscription")
		verifAssert(rep.Replay(sub) == nil, "C05/replay")
		boundaries := []int{len(w.buf)} // offsets at which the handler could have ended cleanly
		for next < n && ph[next] == 2*a+1 { // published while connected: delivered live
			m2 := put(next)
			verifAssert(sess.Send(m2) == nil && sess.Flush() == nil, "C05/live-send")
			boundaries = append(boundaries, len(w.buf))
			next++
		}
		last := a == attempts-1
		body := w.buf
		r := &vhReader{data: body}
		if !last {
			// cut at an arbitrary byte offset: abruptly (read error), or cleanly when the handler
			// returned between two messages
			cut := verifChoose("cut", len(body)+1)
			r.data = body[:cut]
			clean := false
			for _, b := range boundaries {
				if b == cut {
					clean = true
				}
			}
			if !(clean && verifChoose("handler-returned", 2) == 1) {
				r.endErr = vhErrRead
			}
			if cut < len(body) {
				verifCover("C05/cut-mid-stream")
			}
		}
		if verifParam("SPLIT", 0) == 1 && len(r.data) > 1 {
			// the transport hands the bytes over in two reads, split at an arbitrary offset
			r.cutAt = verifChoose("split", len(r.data))
		}
		_ = c.read(r, func(time.Duration) {})
	}
	verifAssume(next == n) // every message was published somewhere on the timeline

	// from the first received event on, the client saw exactly what was published
	if len(got) == 0 {
		return
	}
	first := -1
	for k := 0; k < n; k++ {
		if pub[k].id == got[0].LastEventID && first < 0 {
			first = k
		}
	}
	verifAssert(first >= 0, "C05/first-received-event-is-a-published-one")
	if first < 0 {
		return
	}
	verifAssert(len(got) == n-first, "C05/every-event-from-the-first-received-on-exactly-once")
	if len(got) == n-first {
		okAll := true
		for x := range got {
			p := pub[first+x]
			okAll = verifAnd(okAll, verifAnd(got[x].LastEventID == p.id, verifAnd(got[x].Type == p.typ, got[x].Data == p.data)))
		}
		verifAssert(okAll, "C05/events-in-order-with-published-id-type-data")
	}
	if first == 0 && n > 1 {
		verifCover("C05/all-received")
	}
	verifCover("C05/some-received")
}
