package sse

import (
	"errors"
	"strconv"
)

// C08 / C18 / C19 (FiniteReplayer) — one inductive step from an arbitrary
// ring state satisfying the representation invariant.

var vhErrSend = errors.New("verif: scripted Send error")
var vhErrFlush = errors.New("verif: scripted Flush error")

// vhClient is a recording, fault-injecting MessageWriter.
type vhClient struct {
	sent        []*Message
	flushes     int
	flushAfter  int // number of sends seen at the time of the last flush
	failSendAt  int // index of the Send call that fails (-1: none)
	failFlush   bool
	failed      bool
	callsAfter  int // calls after a failure was reported
	sendCalls   int
}

func (c *vhClient) Send(m *Message) error {
	if c.failed {
		c.callsAfter++
	}
	i := c.sendCalls
	c.sendCalls++
	if i == c.failSendAt {
		c.failed = true
		return vhErrSend
	}
	c.sent = append(c.sent, m)
	return nil
}

func (c *vhClient) Flush() error {
	if c.failed {
		c.callsAfter++
	}
	c.flushes++
	c.flushAfter = len(c.sent)
	if c.failFlush {
		c.failed = true
		return vhErrFlush
	}
	return nil
}

func vhSingleLine(s string) bool { return !vhHasNL(s) }

// vhTopics returns 1..max symbolic one-byte topics.
func vhTopics(tag string, max int) []string {
	n := 1 + verifChoose(tag+".n", max)
	t := make([]string, n)
	for i := range t {
		t[i] = verifNondetStringN(tag, 1)
	}
	return t
}

func vhTopicsIntersect(a, b []string) bool {
	r := false
	for _, x := range a {
		for _, y := range b {
			r = verifOr(r, x == y)
		}
	}
	return r
}

type vhEntry struct {
	msg    *Message
	topics []string
}

// vhFinitePre builds an arbitrary FiniteReplayer state of capacity n.
// Returned: the replayer, the abstract list alpha (oldest first), the pool of ids.
func vhFinitePre(n int, auto bool) (*FiniteReplayer, []vhEntry, uint64) {
	r := &FiniteReplayer{}
	r.buf.buf = make([]messageWithTopics, n)
	count := verifChoose("count", n+1)
	head := 0
	if count == n {
		head = verifChoose("head", n) // a full ring may start anywhere
	}
	var first uint64
	if auto {
		firsts := []uint64{0, 7, 9, 98, 253, 254, 255, 256, 998, 65534, 4294967294, 9999999999}
		first = firsts[verifChoose("first", verifParam("FIRSTS", 4))]
		cur := first + uint64(count)
		r.currentID = &cur
	}
	alpha := make([]vhEntry, count)
	for k := 0; k < count; k++ {
		m := &Message{}
		m.AppendData("d" + strconv.Itoa(k))
		if auto {
			m.ID = ID(strconv.FormatUint(first+uint64(k), 10))
		} else {
			id := verifNondetString("id", 2)
			verifAssume(vhSingleLine(id))
			for j := 0; j < k; j++ {
				verifAssume(alpha[j].msg.ID.String() != id)
			}
			m.ID = ID(id)
		}
		e := vhEntry{msg: m, topics: vhTopics("etopic", verifParam("TOPICS", 2))}
		alpha[k] = e
		r.buf.buf[(head+k)%n] = messageWithTopics{message: m, topics: e.topics}
	}
	r.buf.head = head
	r.buf.count = count
	r.buf.tail = (head + count) % n
	return r, alpha, first
}

// vhFiniteInv checks the representation invariant and returns alpha(q).
func vhFiniteAlpha(prefix string, r *FiniteReplayer) []vhEntry {
	q := &r.buf
	n := len(q.buf)
	verifAssert(q.head >= 0 && q.head < n && q.tail >= 0 && q.tail < n, prefix+"/inv-indices-in-range")
	verifAssert(q.count >= 0 && q.count <= n, prefix+"/inv-count-in-range")
	if !(q.head >= 0 && q.head < n && q.tail >= 0 && q.tail < n && q.count >= 0 && q.count <= n) {
		return nil
	}
	verifAssert(q.tail == (q.head+q.count)%n, prefix+"/inv-tail-is-head-plus-count")
	var alpha []vhEntry
	for k := 0; k < q.count; k++ {
		e := q.buf[(q.head+k)%n]
		alpha = append(alpha, vhEntry{msg: e.message, topics: e.topics})
	}
	// C18: every slot outside the live window holds nothing
	for k := q.count; k < n; k++ {
		e := q.buf[(q.head+k)%n]
		verifAssert(e.message == nil && e.topics == nil, prefix+"/inv-dead-slots-are-zero")
	}
	// ... including the part of the backing array hidden beyond len(buf)
	for _, e := range q.buf[:cap(q.buf)][n:] {
		verifAssert(e.message == nil && e.topics == nil, prefix+"/inv-no-hidden-slots-beyond-len")
	}
	return alpha
}

func vhSameEntries(a, b []vhEntry) bool {
	if len(a) != len(b) {
		return false
	}
	for i := range a {
		if a[i].msg != b[i].msg {
			return false
		}
	}
	return true
}

// vhPreReplay (PREREPLAY=1): a Replay that sends buffered events to a client whose
// k-th Send fails comes first. A Replay, failed or not, leaves nothing behind in the
// replayer: what the following Put/GC evicts is unreachable all the same.
func vhPreReplay(rep Replayer, lid EventID, topics []string) {
	cl := &vhClient{failSendAt: verifChoose("prereplay.failat", 3) - 1}
	_ = rep.Replay(Subscription{Client: cl, LastEventID: lid, Topics: topics})
}

func vhC08Put() {
	n := verifParam("CAP", 3)
	auto := verifParam("AUTO", 0) == 1
	r, alpha, first := vhFinitePre(n, auto)
	if verifParam("PREREPLAY", 0) == 1 && len(alpha) > 0 {
		var all []string
		for _, e := range alpha {
			all = append(all, e.topics...)
		}
		lid := alpha[0].msg.ID
		if auto && first > 0 {
			// the ID issued just before the oldest buffered one: everything buffered is replayed
			lid = ID(strconv.FormatUint(first-1, 10))
		}
		vhPreReplay(r, lid, all)
	}
	var curBefore uint64
	if auto {
		curBefore = *r.currentID
	}

	m := &Message{}
	m.AppendData("new")
	hasID := verifNondetBool("hasid")
	var idStr string
	if hasID {
		idStr = verifNondetString("newid", 2)
		verifAssume(vhSingleLine(idStr))
		m.ID = ID(idStr)
	}
	ntop := verifChoose("ntopics", 3)
	var topics []string
	for i := 0; i < ntop; i++ {
		topics = append(topics, verifNondetStringN("ptopic", 1))
	}
	wireBefore := m.String()
	idBefore := m.ID
	oldWires := make([]string, len(alpha))
	for k := range alpha {
		oldWires[k] = alpha[k].msg.String()
	}

	got, err := r.Put(m, topics)

	// C19: every publication is its own object and earlier publications never change
	for k := range alpha {
		verifAssert(got == nil || got != alpha[k].msg, "C19/Put/publication-is-a-fresh-object")
		verifAssert(alpha[k].msg.String() == oldWires[k], "C19/Put/earlier-publications-unchanged")
	}

	// C19: the caller's message is never modified
	verifAssert(m.ID == idBefore && m.String() == wireBefore, "C08/Put/caller-message-unchanged")

	valid := ntop > 0 && (auto != hasID)
	alpha2 := vhFiniteAlpha("C08/Put", r)
	if !valid {
		verifAssert(err != nil && got == nil, "C08/Put/invalid-rejected")
		if ntop == 0 {
			verifAssert(err == ErrNoTopic, "C08/Put/no-topic-error")
		}
		verifAssert(vhSameEntries(alpha2, alpha), "C08/Put/rejected-not-stored")
		if auto {
			verifAssert(*r.currentID == curBefore, "C08/Put/rejected-does-not-consume-id")
		}
		verifCover("C08/Put/rejected")
		return
	}
	verifAssert(err == nil && got != nil, "C08/Put/valid-accepted")
	if err != nil || got == nil {
		return
	}
	// expected abstract list: append, dropping the oldest when full
	want := append(append([]vhEntry{}, alpha...), vhEntry{msg: got, topics: topics})
	if len(want) > n {
		want = want[len(want)-n:]
		verifCover("C08/Put/evicts-oldest")
	}
	verifAssert(vhSameEntries(alpha2, want), "C08/Put/holds-exactly-last-N")
	if len(alpha2) > 0 {
		last := alpha2[len(alpha2)-1]
		verifAssert(len(last.topics) == len(topics), "C08/Put/topics-stored")
	}
	if auto {
		verifAssert(got != m, "C08/Put/auto-id-set-on-a-copy")
		verifAssert(got.ID.IsSet() && got.ID.String() == strconv.FormatUint(curBefore, 10), "C08/Put/auto-id-is-next-decimal")
		verifAssert(*r.currentID == curBefore+1, "C08/Put/auto-id-advances-by-one")
		verifAssert(got.String() == "id: "+strconv.FormatUint(curBefore, 10)+"\n"+wireBefore, "C08/Put/copy-carries-same-content")
	} else {
		verifAssert(got == m, "C08/Put/manual-stores-the-message")
	}
	// C18: at most N messages reachable, evicted one unreachable
	if len(alpha) == n {
		verifAssert(!verifReachableOrNative(r, alpha[0].msg), "C18/Finite/evicted-message-unreachable")
	}
}

// verifReachableOrNative: heap reachability is decided by the executor; natively
// fall back to scanning the ring's whole backing array.
func verifReachableOrNative(r *FiniteReplayer, m *Message) bool {
	return verifReachable(r, m)
}

func vhC08Replay() {
	n := verifParam("CAP", 3)
	auto := verifParam("AUTO", 0) == 1
	r, alpha, first := vhFinitePre(n, auto)

	// the failing Send index is symbolic (-1: none); it is only compared when a Send happens
	cl := &vhClient{failSendAt: verifNondetInt("failat", -1, n-1)}
	cl.failFlush = verifNondetBool("flushfails")
	sub := Subscription{Client: cl, Topics: vhTopics("stopic", verifParam("TOPICS", 2))}
	presentedSet := verifNondetBool("lidset")
	var lid string
	if presentedSet {
		// any string, or (to reach every position) the k-th buffered id
		if k := verifChoose("lidkind", len(alpha)+1); k < len(alpha) {
			lid = alpha[k].msg.ID.String()
		} else {
			lid = verifNondetString("lid", 2)
			verifAssume(vhSingleLine(lid))
		}
		sub.LastEventID = ID(lid)
	}

	err := r.Replay(sub)

	// specification on the abstract list
	start := -1
	if presentedSet {
		for k := range alpha {
			if alpha[k].msg.ID.String() == lid {
				start = k
			}
		}
	}
	var want []*Message
	if start >= 0 {
		for k := start + 1; k < len(alpha); k++ {
			if vhTopicsIntersect(sub.Topics, alpha[k].topics) {
				want = append(want, alpha[k].msg)
			}
		}
	}
	if auto && presentedSet && start < 0 {
		verifKnown("auto-id-noncanonical", vhNonCanonicalDecimal(lid))
		// an automatic ID older than the oldest buffered one (evicted): the property
		// leaves the outcome open (go-sse replays everything still buffered)
		if v, ok := vhParseDecimal(lid); ok && v < first {
			verifCover("C08/Replay/auto-evicted-id")
			alpha2 := vhFiniteAlpha("C08/Replay", r)
			verifAssert(vhSameEntries(alpha2, alpha), "C08/Replay/buffer-unchanged")
			return
		}
	}
	if cl.failSendAt >= 0 && cl.failSendAt < len(want) {
		// the failing Send ends the replay: exactly the earlier ones were delivered
		verifAssert(err == vhErrSend, "C08/Replay/send-error-returned")
		verifAssert(vhSameMsgs(cl.sent, want[:cl.failSendAt]), "C08/Replay/sends-before-failure")
		verifAssert(cl.callsAfter == 0, "C08/Replay/nothing-after-failure")
		verifCover("C08/Replay/send-failure")
	} else {
		verifAssert(vhSameMsgs(cl.sent, want), "C08/Replay/sends-exactly-later-matching-in-order")
		if len(want) > 0 {
			verifAssert(cl.flushes >= 1 && cl.flushAfter == len(want), "C08/Replay/flush-after-last-send")
			if cl.failFlush {
				verifAssert(err == vhErrFlush, "C08/Replay/flush-error-returned")
			} else {
				verifAssert(err == nil, "C08/Replay/no-error")
			}
			verifCover("C08/Replay/something-replayed")
		} else if !cl.failFlush {
			verifAssert(err == nil, "C08/Replay/nothing-to-replay-no-error")
		}
		if start >= 0 && start < len(alpha)-1 {
			// the ID of a buffered event with later events behind it: "... then flushes",
			// also when none of the later events matched the topics
			verifAssert(cl.flushes >= 1, "C08/Replay/flushes-after-replaying-from-a-buffered-id")
		}
	}
	if start == len(alpha)-1 && start >= 0 {
		verifCover("C08/Replay/newest-id")
	}
	// Replay does not change the buffer
	alpha2 := vhFiniteAlpha("C08/Replay", r)
	verifAssert(vhSameEntries(alpha2, alpha), "C08/Replay/buffer-unchanged")
}

func vhSameMsgs(a, b []*Message) bool {
	if len(a) != len(b) {
		return false
	}
	for i := range a {
		if a[i] != b[i] {
			return false
		}
	}
	return true
}

func vhParseDecimal(s string) (uint64, bool) {
	if len(s) == 0 {
		return 0, false
	}
	var v uint64
	for i := 0; i < len(s); i++ {
		if s[i] < '0' || s[i] > '9' {
			return 0, false
		}
		v = v*10 + uint64(s[i]-'0')
	}
	return v, true
}

// a digit string with a superfluous leading zero ("01", "00")
func vhNonCanonicalDecimal(s string) bool {
	if len(s) < 2 || s[0] != '0' {
		return false
	}
	r := true
	for i := 0; i < len(s); i++ {
		r = verifAnd(r, verifAnd(s[i] >= '0', s[i] <= '9'))
	}
	return r
}

// Base case: the constructor establishes the invariant with an empty list, and refuses N < 2.
func vhC08New() {
	n := verifNondetInt("n", -1, 6)
	auto := verifNondetBool("auto")
	r, err := NewFiniteReplayer(n, auto)
	if n < 2 {
		verifAssert(err != nil && r == nil, "C08/New/capacity-below-2-refused")
		return
	}
	verifAssert(err == nil && r != nil, "C08/New/accepted")
	alpha := vhFiniteAlpha("C08/New", r)
	verifAssert(len(alpha) == 0 && len(r.buf.buf) == n, "C08/New/empty-with-capacity-N")
	verifAssert((r.currentID != nil) == auto, "C08/New/id-mode")
	if auto {
		verifAssert(*r.currentID == 0, "C08/New/auto-ids-start-at-0")
	}
}

// C18 through the public constructor (no assumption about the representation): a
// FiniteReplayer of capacity N, N+3 Puts; afterwards exactly the last N stored messages
// are reachable from the replayer, the earlier ones are not.
func vhC18FiniteHistory() {
	n := []int{2, 3, 5, 8, 9, 10, 12, 17}[verifChoose("capacity", 8)]
	auto := verifChoose("auto", 2) == 1
	r, err := NewFiniteReplayer(n, auto)
	verifAssert(err == nil && r != nil, "C18/FiniteHistory/constructed")
	total := n + 3
	stored := make([]*Message, 0, total)
	for i := 0; i < total; i++ {
		m := &Message{}
		m.AppendData("d")
		if !auto {
			m.ID = ID("m" + strconv.Itoa(i))
		}
		got, perr := r.Put(m, []string{"t"})
		verifAssert(perr == nil && got != nil, "C18/FiniteHistory/put-accepted")
		stored = append(stored, got)
	}
	for i, m := range stored {
		reach := verifReachable(r, m)
		if i < total-n {
			verifAssert(!reach, "C18/Finite/evicted-message-unreachable")
		} else {
			verifAssert(reach, "C18/FiniteHistory/last-N-are-kept")
		}
	}
	verifCover("C18/FiniteHistory/ran")
}
