package sse

// Verification intrinsics. The symbolic executor (verif/internal/sym)
// intercepts every function in this file by name; the bodies below are the
// native semantics used when a counterexample is replayed with `go test`:
// values come from the replay vector named by $VERIF_REPLAY.

import (
	"reflect"
	"runtime"
	"sync"
	"sync/atomic"
	"encoding/json"
	"fmt"
	"math"
	"os"
	"time"
)

type verifReplayValue struct {
	Tag  string          `json:"tag"`
	Ord  int             `json:"ord"`
	Kind string          `json:"kind"`
	V    json.RawMessage `json:"v"`
}

type verifReplayFile struct {
	Property string             `json:"property"`
	Harness  string             `json:"harness"`
	Label    string             `json:"label"`
	Params   map[string]int     `json:"params"`
	Values   []verifReplayValue `json:"values"`
	Schedule []verifStep        `json:"schedule"`
}

var (
	verifVec      *verifReplayFile
	verifOrd      map[string]int
	verifFailures []string
	verifSkipped  bool
	verifLog      []string
)

type verifSkip struct{}

func verifLoad(path string) error {
	b, err := os.ReadFile(path)
	if err != nil {
		return err
	}
	verifVec = &verifReplayFile{}
	verifOrd = map[string]int{}
	verifFailures, verifSkipped, verifLog = nil, false, nil
	return json.Unmarshal(b, verifVec)
}

func verifNext(tag string, out any) {
	ord := verifOrd[tag]
	verifOrd[tag] = ord + 1
	for _, v := range verifVec.Values {
		if v.Tag == tag && v.Ord == ord {
			if err := json.Unmarshal(v.V, out); err != nil {
				panic(fmt.Sprintf("verif replay: bad value for %s#%d: %v", tag, ord, err))
			}
			return
		}
	}
	// value not in the vector: the solver did not constrain it; zero value
}

func verifNondetBool(tag string) bool { var v bool; verifNext(tag, &v); return v }
func verifNondetByte(tag string) byte { var v int; verifNext(tag, &v); return byte(v) }
func verifNondetInt(tag string, lo, hi int) int {
	var v int
	verifNext(tag, &v)
	verifAssume(lo <= v && v <= hi)
	return v
}
func verifNondetInt64(tag string) int64 { var v int64; verifNext(tag, &v); return v }
func verifNondetFloat(tag string) float64 {
	var s string
	verifNext(tag, &s)
	var bits uint64
	fmt.Sscanf(s, "%x", &bits)
	return math.Float64frombits(bits)
}
func verifNondetBytes(tag string, max int) []byte {
	var v []int
	verifNext(tag, &v)
	b := make([]byte, len(v))
	for i := range v {
		b[i] = byte(v[i])
	}
	verifAssume(len(b) <= max)
	return b
}
func verifNondetString(tag string, max int) string   { return string(verifNondetBytes(tag, max)) }
func verifNondetStringN(tag string, n int) string    { return string(verifNondetBytesN(tag, n)) }
func verifNondetBytesN(tag string, n int) []byte {
	var v []int
	verifNext(tag, &v)
	b := make([]byte, n)
	for i := range v {
		if i < n {
			b[i] = byte(v[i])
		}
	}
	return b
}
func verifChoose(tag string, n int) int {
	var v int
	verifNext(tag, &v)
	verifAssume(0 <= v && v < n)
	return v
}
func verifConcretize(x int) int { return x }
func verifAssume(cond bool) {
	if !cond {
		verifSkipped = true
		panic(verifSkip{})
	}
}
func verifAssert(cond bool, label string) {
	if !cond {
		verifFailures = append(verifFailures, label)
	}
}

// verifOr/verifAnd/verifIte build terms without forking under the executor.
func verifOr(a, b bool) bool  { return a || b }
func verifAnd(a, b bool) bool { return a && b }
func verifIteInt(c bool, a, b int) int {
	if c {
		return a
	}
	return b
}

// verifParam returns a bound chosen by the check driver (tier dependent).
func verifParam(name string, def int) int {
	if verifVec != nil {
		if v, ok := verifVec.Params[name]; ok {
			return v
		}
	}
	return def
}
func verifCover(label string)           {}
func verifKnown(name string, cond bool) {}
func verifObserve(label string, v ...any) {
	verifLog = append(verifLog, fmt.Sprintf("%s: %q", label, v))
}

// verifSymbolic reports whether the code runs under the symbolic executor.
func verifSymbolic() bool { return false }

// verifNondetTime returns an instant; under the executor an instant is a
// 64-bit nanosecond count, natively it is that many ns after the Unix epoch.
func verifNondetTime(tag string) time.Time {
	var v int64
	verifNext(tag, &v)
	return time.Unix(0, v)
}
func verifTimeNanos(t time.Time) int64 { return t.UnixNano() }

// verifReachable: is the object target points to reachable from root? Under the
// executor this is decided on its explicit heap; natively by walking the object graph
// with reflection (pointers, interfaces, structs, arrays, maps and slices over their
// whole capacity; closures are opaque).
func verifReachable(root any, target any) bool {
	t := reflect.ValueOf(target)
	if t.Kind() != reflect.Pointer || t.IsNil() {
		return false
	}
	tp := t.Pointer()
	seen := map[uintptr]bool{}
	var walk func(v reflect.Value) bool
	walk = func(v reflect.Value) bool {
		switch v.Kind() {
		case reflect.Pointer:
			if v.IsNil() {
				return false
			}
			p := v.Pointer()
			if p == tp {
				return true
			}
			if seen[p] {
				return false
			}
			seen[p] = true
			return walk(v.Elem())
		case reflect.Interface:
			if v.IsNil() {
				return false
			}
			return walk(v.Elem())
		case reflect.Struct:
			for i := 0; i < v.NumField(); i++ {
				if walk(v.Field(i)) {
					return true
				}
			}
		case reflect.Slice:
			if v.IsNil() {
				return false
			}
			full := v.Slice(0, v.Cap())
			for i := 0; i < full.Len(); i++ {
				if walk(full.Index(i)) {
					return true
				}
			}
		case reflect.Array:
			for i := 0; i < v.Len(); i++ {
				if walk(v.Index(i)) {
					return true
				}
			}
		case reflect.Map:
			it := v.MapRange()
			for it.Next() {
				if walk(it.Key()) || walk(it.Value()) {
					return true
				}
			}
		}
		return false
	}
	return walk(reflect.ValueOf(root))
}

// verifJSONDoc returns a JSON document that decodes to the string s. Under
// the executor encoding/json is a stub: json.Unmarshal of this document
// yields s or fails.
func verifJSONDoc(s string) []byte {
	// control characters are spelled with the six-character \u00XX escape (a decoder must
	// treat them like the two-character ones)
	out := []byte{'"'}
	for i := 0; i < len(s); i++ {
		c := s[i]
		switch {
		case c < 0x20 || c == '"' || c == '\\' || c == 0x7f:
			out = append(out, []byte(fmt.Sprintf("\\u%04x", c))...)
		default:
			out = append(out, c)
		}
	}
	return append(out, '"')
}

// verifGuard declares that the given fields may only be read with mu held
// (read or write lock) and only be written with mu write-locked; the executor
// checks every access. Natively a no-op.
func verifGuard(mu *sync.RWMutex, fields ...any) {}

// verifLockFree: executor-only query of the lock state (see vhLockFree).
func verifLockFree(mu *sync.RWMutex) bool { return true }

// verifTimerHold: from now on timers that are armed do not fire within the scenario
// (executor only; natively the harness uses waits far longer than its own deadline).
func verifTimerHold() {}

// verifTimerResets: the durations time.Timer.Reset was called with (executor only).
func verifTimerResets() []int64 { return nil }

// verifLastNow: the nanosecond value most recently returned by time.Now/Since (executor only).
func verifLastNow() int64 { return 0 }

// ---- goroutines ----
// Under the executor verifGo spawns an interpreted thread and verifRunThreads
// runs the scheduler (every interleaving of visible operations is explored).
// Natively they are real goroutines. A replay vector that carries a schedule is
// replayed *schedule-directed*: joe.go is overlaid with a copy in which every
// visible operation is preceded by verifYield(), and a controller releases the
// goroutines in the recorded order (a select that natively takes another ready
// case than the recorded one is a deviation: the attempt is repeated). Without
// a schedule, or when every attempt deviates, the harness falls back to stress.
type verifStep struct {
	T []int `json:"t"`
	C []int `json:"c"`
}

var (
	verifWG      sync.WaitGroup
	verifRunning int64

	vsMu       sync.Mutex
	vsCond     = sync.NewCond(&vsMu)
	vsGuided   bool
	vsFree     bool
	vsDeviated bool
	vsIDs      = map[int64]int{}
	vsNext     int
	vsArrived  = map[int]bool{}
	vsFinished = map[int]bool{}
	vsReleased = map[int]int{}
	vsExpect   = map[int]int{}
	vsSteps    []verifStep
	vsReason   string
	vsGen      int  // generation: goroutines and controllers of earlier attempts must not touch the current one
	vsComplete bool // the controller released every recorded step
)

func verifGoid() int64 {
	var buf [64]byte
	n := runtime.Stack(buf[:], false)
	// "goroutine 123 [running]:"
	var id int64
	for _, c := range buf[len("goroutine "):n] {
		if c < '0' || c > '9' {
			break
		}
		id = id*10 + int64(c-'0')
	}
	return id
}

func verifSchedReset(steps []verifStep, guided bool) {
	vsMu.Lock()
	defer vsMu.Unlock()
	vsGen++
	vsComplete = false
	vsGuided, vsFree, vsDeviated, vsReason = guided, !guided, false, ""
	vsIDs, vsNext = map[int64]int{}, 0
	vsArrived, vsFinished, vsReleased, vsExpect = map[int]bool{}, map[int]bool{}, map[int]int{}, map[int]int{}
	vsSteps = steps
	vsCond.Broadcast() // goroutines of an earlier attempt that are still parked leave
}

// verifYield is called (by the instrumented copy of joe.go and by harness code)
// right before a visible operation.
func verifYield() {
	vsMu.Lock()
	defer vsMu.Unlock()
	if !vsGuided || vsFree {
		return
	}
	id := vsIDs[verifGoid()]
	if id == 0 {
		return
	}
	gen := vsGen
	vsArrived[id] = true
	vsCond.Broadcast()
	for vsGen == gen && vsReleased[id] == 0 && !vsFree {
		vsCond.Wait()
	}
	if vsGen != gen {
		return // left over from an earlier attempt
	}
	if vsReleased[id] > 0 {
		vsReleased[id]--
	}
	vsArrived[id] = false
}

// verifTook reports which case a select took.
func verifTook(c int) {
	vsMu.Lock()
	defer vsMu.Unlock()
	if !vsGuided || vsFree {
		return
	}
	id := vsIDs[verifGoid()]
	if want, ok := vsExpect[id]; ok && id != 0 {
		delete(vsExpect, id)
		if want != c {
			vsReason = fmt.Sprintf("thread %d took select case %d, recorded %d", id, c, want)
			vsDeviated, vsFree = true, true
			vsCond.Broadcast()
		}
	}
}

func verifGo(f func()) {
	verifWG.Add(1)
	atomic.AddInt64(&verifRunning, 1)
	verifGoNative(func() {
		defer func() {
			atomic.AddInt64(&verifRunning, -1)
			verifWG.Done()
		}()
		f()
	})
}

// verifGoNative starts a goroutine with the next thread id (the executor numbers
// threads in creation order) and, when a schedule is being followed, waits until
// it is parked at its first visible operation - as the executor does.
func verifGoNative(f func()) {
	vsMu.Lock()
	vsNext++
	id := vsNext
	gen := vsGen
	guided := vsGuided && !vsFree
	vsMu.Unlock()
	go func() {
		vsMu.Lock()
		if vsGen == gen {
			vsIDs[verifGoid()] = id
		}
		vsMu.Unlock()
		defer func() {
			vsMu.Lock()
			if vsGen == gen {
				vsFinished[id] = true
				vsCond.Broadcast()
			}
			vsMu.Unlock()
		}()
		f()
	}()
	if guided {
		vsMu.Lock()
		deadline := time.Now().Add(time.Second)
		for !vsArrived[id] && !vsFinished[id] && !vsFree && time.Now().Before(deadline) {
			verifCondWait(50 * time.Millisecond)
		}
		vsMu.Unlock()
	}
}

// verifCondWait waits on vsCond for at most d (vsMu held).
func verifCondWait(d time.Duration) {
	t := time.AfterFunc(d, func() { vsMu.Lock(); vsCond.Broadcast(); vsMu.Unlock() })
	vsCond.Wait()
	t.Stop()
}

func verifController() {
	vsMu.Lock()
	defer vsMu.Unlock()
	gen := vsGen
	for _, st := range vsSteps {
		if vsFree || vsGen != gen {
			return
		}
		deadline := time.Now().Add(500 * time.Millisecond)
		all := func() bool {
			for _, id := range st.T {
				if !vsArrived[id] {
					return false
				}
			}
			return true
		}
		for !all() && !vsFree && vsGen == gen && time.Now().Before(deadline) {
			verifCondWait(20 * time.Millisecond)
		}
		if vsGen != gen {
			return
		}
		if !all() {
			vsReason = fmt.Sprintf("step %v: not all goroutines arrived (arrived=%v finished=%v)", st, vsArrived, vsFinished)
			vsDeviated, vsFree = true, true
			vsCond.Broadcast()
			return
		}
		for k, id := range st.T {
			if k < len(st.C) && st.C[k] != -1 {
				vsExpect[id] = st.C[k]
			}
			vsReleased[id]++
			vsArrived[id] = false
		}
		vsCond.Broadcast()
		// let the released goroutines get to their next visible operation (or finish)
		settle := time.Now().Add(20 * time.Millisecond)
		settled := func() bool {
			for _, id := range st.T {
				if !vsArrived[id] && !vsFinished[id] {
					return false
				}
			}
			return true
		}
		for !settled() && !vsFree && vsGen == gen && time.Now().Before(settle) {
			verifCondWait(2 * time.Millisecond)
		}
	}
	if vsGen != gen {
		return
	}
	// the recorded schedule is exhausted: everything else runs freely
	if !vsFree {
		vsComplete = true
	}
	vsFree = true
	vsCond.Broadcast()
}

// verifRunThreads returns the number of harness goroutines that did not finish.
func verifRunThreads(maxSteps int) int {
	vsMu.Lock()
	guided := vsGuided && !vsFree
	vsMu.Unlock()
	if guided {
		go verifController()
	}
	done := make(chan struct{})
	go func() { verifWG.Wait(); close(done) }()
	select {
	case <-done:
		if guided {
			// give the controller the moment it needs to notice that its schedule is exhausted
			vsMu.Lock()
			limit := time.Now().Add(200 * time.Millisecond)
			for !vsComplete && !vsDeviated && !vsFree && time.Now().Before(limit) {
				verifCondWait(5 * time.Millisecond)
			}
			vsMu.Unlock()
		}
		return 0
	case <-time.After(2 * time.Second):
		vsMu.Lock()
		vsFree = true
		vsCond.Broadcast()
		vsMu.Unlock()
		return int(atomic.LoadInt64(&verifRunning))
	}
}

func verifDeviated() bool {
	vsMu.Lock()
	defer vsMu.Unlock()
	return vsDeviated || !vsComplete
}

func verifDeviationReason() string {
	vsMu.Lock()
	defer vsMu.Unlock()
	if vsReason == "" && !vsComplete {
		return "the recorded schedule was not completed"
	}
	return vsReason
}

// verifCrashed: an unrecovered panic in an interpreted goroutine (natively the process dies instead).
func verifCrashed() bool { return false }

// verifOutcome records a canonical summary of the run's observable outcome (used to
// validate the interleaving reduction: the set of outcomes must not depend on it).
func verifOutcome(s string) {}

// verifGuardStruct: like verifGuard for every field of *obj that holds a map or an int
// (the subscription tables and id counters, whatever they are called).
func verifGuardStruct(mu *sync.RWMutex, obj any) {}
