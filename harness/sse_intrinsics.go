package sse

// Verification intrinsics. The symbolic executor (verif/internal/sym)
// intercepts every function in this file by name; the bodies below are the
// native semantics used when a counterexample is replayed with `go test`:
// values come from the replay vector named by $VERIF_REPLAY.

import (
	"sync"
	"sync/atomic"
	"encoding/json"
	"fmt"
	"math"
	"os"
	"time"
)

type verifReplayValue struct {
	Tag  string          `json:"tag"`
	Ord  int             `json:"ord"`
	Kind string          `json:"kind"`
	V    json.RawMessage `json:"v"`
}

type verifReplayFile struct {
	Property string             `json:"property"`
	Harness  string             `json:"harness"`
	Label    string             `json:"label"`
	Params   map[string]int     `json:"params"`
	Values   []verifReplayValue `json:"values"`
}

var (
	verifVec      *verifReplayFile
	verifOrd      map[string]int
	verifFailures []string
	verifSkipped  bool
	verifLog      []string
)

type verifSkip struct{}

func verifLoad(path string) error {
	b, err := os.ReadFile(path)
	if err != nil {
		return err
	}
	verifVec = &verifReplayFile{}
	verifOrd = map[string]int{}
	verifFailures, verifSkipped, verifLog = nil, false, nil
	return json.Unmarshal(b, verifVec)
}

func verifNext(tag string, out any) {
	ord := verifOrd[tag]
	verifOrd[tag] = ord + 1
	for _, v := range verifVec.Values {
		if v.Tag == tag && v.Ord == ord {
			if err := json.Unmarshal(v.V, out); err != nil {
				panic(fmt.Sprintf("verif replay: bad value for %s#%d: %v", tag, ord, err))
			}
			return
		}
	}
	// value not in the vector: the solver did not constrain it; zero value
}

func verifNondetBool(tag string) bool { var v bool; verifNext(tag, &v); return v }
func verifNondetByte(tag string) byte { var v int; verifNext(tag, &v); return byte(v) }
func verifNondetInt(tag string, lo, hi int) int {
	var v int
	verifNext(tag, &v)
	verifAssume(lo <= v && v <= hi)
	return v
}
func verifNondetInt64(tag string) int64 { var v int64; verifNext(tag, &v); return v }
func verifNondetFloat(tag string) float64 {
	var s string
	verifNext(tag, &s)
	var bits uint64
	fmt.Sscanf(s, "%x", &bits)
	return math.Float64frombits(bits)
}
func verifNondetBytes(tag string, max int) []byte {
	var v []int
	verifNext(tag, &v)
	b := make([]byte, len(v))
	for i := range v {
		b[i] = byte(v[i])
	}
	verifAssume(len(b) <= max)
	return b
}
func verifNondetString(tag string, max int) string   { return string(verifNondetBytes(tag, max)) }
func verifNondetStringN(tag string, n int) string    { return string(verifNondetBytesN(tag, n)) }
func verifNondetBytesN(tag string, n int) []byte {
	var v []int
	verifNext(tag, &v)
	b := make([]byte, n)
	for i := range v {
		if i < n {
			b[i] = byte(v[i])
		}
	}
	return b
}
func verifChoose(tag string, n int) int {
	var v int
	verifNext(tag, &v)
	verifAssume(0 <= v && v < n)
	return v
}
func verifConcretize(x int) int { return x }
func verifAssume(cond bool) {
	if !cond {
		verifSkipped = true
		panic(verifSkip{})
	}
}
func verifAssert(cond bool, label string) {
	if !cond {
		verifFailures = append(verifFailures, label)
	}
}

// verifOr/verifAnd/verifIte build terms without forking under the executor.
func verifOr(a, b bool) bool  { return a || b }
func verifAnd(a, b bool) bool { return a && b }
func verifIteInt(c bool, a, b int) int {
	if c {
		return a
	}
	return b
}

// verifParam returns a bound chosen by the check driver (tier dependent).
func verifParam(name string, def int) int {
	if verifVec != nil {
		if v, ok := verifVec.Params[name]; ok {
			return v
		}
	}
	return def
}
func verifCover(label string)           {}
func verifKnown(name string, cond bool) {}
func verifObserve(label string, v ...any) {
	verifLog = append(verifLog, fmt.Sprintf("%s: %q", label, v))
}

// verifSymbolic reports whether the code runs under the symbolic executor.
func verifSymbolic() bool { return false }

// verifNondetTime returns an instant; under the executor an instant is a
// 64-bit nanosecond count, natively it is that many ns after the Unix epoch.
func verifNondetTime(tag string) time.Time {
	var v int64
	verifNext(tag, &v)
	return time.Unix(0, v)
}
func verifTimeNanos(t time.Time) int64 { return t.UnixNano() }

// verifReachable is decided on the executor's heap; natively it is not
// observable and reports false (heap-walk assertions are executor-only).
func verifReachable(root any, target any) bool { return false }

// verifJSONDoc returns a JSON document that decodes to the string s. Under
// the executor encoding/json is a stub: json.Unmarshal of this document
// yields s or fails.
func verifJSONDoc(s string) []byte {
	b, _ := json.Marshal(s)
	return b
}

// verifGuard declares that the given fields may only be read with mu held
// (read or write lock) and only be written with mu write-locked; the executor
// checks every access. Natively a no-op.
func verifGuard(mu *sync.RWMutex, fields ...any) {}

// verifLockFree: executor-only query of the lock state (see vhLockFree).
func verifLockFree(mu *sync.RWMutex) bool { return true }

// verifTimerResets: the durations time.Timer.Reset was called with (executor only).
func verifTimerResets() []int64 { return nil }

// verifLastNow: the nanosecond value most recently returned by time.Now/Since (executor only).
func verifLastNow() int64 { return 0 }

// ---- goroutines ----
// Under the executor verifGo spawns an interpreted thread and verifRunThreads
// runs the scheduler (every interleaving of visible operations is explored).
// Natively they are real goroutines and a wait with a deadline.
var (
	verifWG      sync.WaitGroup
	verifRunning int64
)

func verifGo(f func()) {
	verifWG.Add(1)
	atomic.AddInt64(&verifRunning, 1)
	go func() {
		defer func() {
			atomic.AddInt64(&verifRunning, -1)
			verifWG.Done()
		}()
		f()
	}()
}

// verifRunThreads returns the number of harness goroutines that did not finish.
func verifRunThreads(maxSteps int) int {
	done := make(chan struct{})
	go func() { verifWG.Wait(); close(done) }()
	select {
	case <-done:
		return 0
	case <-time.After(2 * time.Second):
		return int(atomic.LoadInt64(&verifRunning))
	}
}

// verifCrashed: an unrecovered panic in an interpreted goroutine (natively the process dies instead).
func verifCrashed() bool { return false }

// verifOutcome records a canonical summary of the run's observable outcome (used to
// validate the interleaving reduction: the set of outcomes must not depend on it).
func verifOutcome(s string) {}

// verifGuardStruct: like verifGuard for every field of *obj that holds a map or an int
// (the subscription tables and id counters, whatever they are called).
func verifGuardStruct(mu *sync.RWMutex, obj any) {}
