package sse

import (
	"context"
	"errors"
	"fmt"
	"strconv"
	"sync"
)

// C03 C04 C06 C07 C17 — Joe under every interleaving of a bounded configuration.
// The goroutines below are interpreted threads under the executor (the
// scheduler forks over every enabled visible operation); all outcomes of the
// environment (Send/Flush/Put/Replay failures, topic matches) are symbolic.

const (
	vjSend = iota
	vjFlush
	vjPut
	vjReplay
	vjPubReturn
	vjCancelReq
	vjSubReturn
	vjShutdownReq
	vjShutdownReturn
)

type vjEvent struct {
	kind int
	i    int // subscriber (or publisher index for PubReturn)
	m    int // message index (-1 n/a)
	err  error
}

type vjEnv struct {
	mu            sync.Mutex // natively the goroutines are real: the monitors need a lock
	log           []vjEvent
	returned      []bool
	usedAfterRet  bool
	replayerPanic bool // the replayer has panicked once
	usedAfterPanic bool
	puts          []int // message indices in Put order (stamps)
	nsub          int
}

func (e *vjEnv) add(ev vjEvent) int {
	e.mu.Lock()
	defer e.mu.Unlock()
	e.log = append(e.log, ev)
	return len(e.log) - 1
}

func (e *vjEnv) isReturned(i int) bool {
	e.mu.Lock()
	defer e.mu.Unlock()
	return e.returned[i]
}

var (
	vjErrSend   = errors.New("verif: subscriber Send failed")
	vjErrFlush  = errors.New("verif: subscriber Flush failed")
	vjErrPut    = errors.New("verif: replayer Put failed")
	vjErrReplay = errors.New("verif: replayer Replay failed")
	vjErrSendCanceled = fmt.Errorf("verif: subscriber Send failed: %w", context.Canceled)
)

type vjClient struct {
	env   *vjEnv
	i     int
	msgOf func(*Message) int
	canFail bool
	gate  chan struct{} // GATE=1: Send only returns once the publisher got its last Publish call back
}

func (c *vjClient) Send(m *Message) error {
	if c.env.isReturned(c.i) {
		c.env.usedAfterRet = true
	}
	// a real MessageWriter (Session.Send) reads the message it is given: a nil message
	// crashes it, inside Joe's goroutine
	_ = len(m.chunks)
	if c.gate != nil {
		verifYield()
		<-c.gate
	}
	var err error
	if c.canFail && verifNondetBool("sendfails") {
		err = vjSendError()
	}
	c.env.add(vjEvent{kind: vjSend, i: c.i, m: c.msgOf(m), err: err})
	return err
}

// vjSendError: the error a failing Send returns. ERRKIND=1: an error that wraps
// context.Canceled although the subscription's own context is live (a writer built
// on another context, e.g. the HTTP/2 stream's) - still the subscriber's own error.
func vjSendError() error {
	if verifParam("ERRKIND", 0) == 1 {
		return vjErrSendCanceled
	}
	return vjErrSend
}

func (c *vjClient) Flush() error {
	if c.env.isReturned(c.i) {
		c.env.usedAfterRet = true
	}
	var err error
	if c.canFail && verifNondetBool("flushfails") {
		err = vjErrFlush
	}
	c.env.add(vjEvent{kind: vjFlush, i: c.i, m: -1, err: err})
	return err
}

// vjReplayer is the replayer *contract* as an environment: Put stamps the message
// (returning a copy that carries the stamp), Replay delivers exactly the stamped
// messages after the presented one that match, in order. Each call may also fail
// or panic (symbolic choice).
type vjReplayer struct {
	env     *vjEnv
	msgs    []*Message
	copies  []*Message // copies[k]: the ID-carrying copy of msgs[k] handed out by Put
	topics  [][]string
	faults  bool
	sameMsg bool
	calls   int
	subIdx  func(Subscription) int
}

func (r *vjReplayer) Put(m *Message, topics []string) (*Message, error) {
	if r.env.replayerPanic {
		r.env.usedAfterPanic = true
	}
	k := -1
	for i := range r.msgs {
		if r.msgs[i] == m {
			k = i
		}
	}
	if r.sameMsg && k >= 0 {
		k = r.calls // the same object every time: the k-th call is the k-th publication
	}
	r.calls++
	outcome := 0
	if r.faults {
		outcome = verifChoose("put-outcome", 3)
	}
	switch outcome {
	case 1:
		r.env.add(vjEvent{kind: vjPut, i: -1, m: k, err: vjErrPut})
		return nil, vjErrPut
	case 2:
		r.env.replayerPanic = true
		r.env.add(vjEvent{kind: vjPut, i: -2, m: k, err: vjErrPut})
		if verifChoose("panic-value", 2) == 1 {
			panic(vjErrPut) // a panic whose value is an error (e.g. a runtime error)
		}
		panic("verif: replayer panics in Put")
	}
	r.env.puts = append(r.env.puts, k)
	r.env.add(vjEvent{kind: vjPut, i: -1, m: k})
	return r.copies[k], nil
}

func (r *vjReplayer) Replay(sub Subscription) error {
	if r.env.replayerPanic {
		r.env.usedAfterPanic = true
	}
	i := r.subIdx(sub)
	outcome := 0
	if r.faults {
		outcome = verifChoose("replay-outcome", 3)
	}
	if outcome == 2 {
		r.env.replayerPanic = true
		r.env.add(vjEvent{kind: vjReplay, i: i, m: -2, err: vjErrReplay})
		if verifChoose("panic-value", 2) == 1 {
			panic(vjErrReplay)
		}
		panic("verif: replayer panics in Replay")
	}
	if outcome == 1 {
		r.env.add(vjEvent{kind: vjReplay, i: i, m: -1, err: vjErrReplay})
		return vjErrReplay
	}
	r.env.add(vjEvent{kind: vjReplay, i: i, m: -1})
	// contract: everything stamped after the presented ID that matches, in stamp order
	if !sub.LastEventID.IsSet() {
		return nil
	}
	start := -1
	for p, k := range r.env.puts {
		if r.copies[k].ID == sub.LastEventID {
			start = p
		}
	}
	if start < 0 {
		return nil
	}
	sent := false
	for _, k := range r.env.puts[start+1:] {
		if vhTopicsIntersect(sub.Topics, r.topics[k]) {
			if err := sub.Client.Send(r.copies[k]); err != nil {
				return err
			}
			sent = true
		}
	}
	if sent {
		return sub.Client.Flush()
	}
	return nil
}

type vjScenario struct {
	env      *vjEnv
	j        *Joe
	msgs     []*Message
	copies   []*Message
	mtopics  [][]string
	stopics  [][]string
	ctxs     []*vhCtx
	subErr   []error
	pubErr   []error
	pubDone  []bool
	shutErr  []error
	shutDone []bool
	shutCtxDone []bool
	lids     []EventID
	nsub, nmsg, nshut int
	unfinished int
	unreleasedAtShutdown bool
}

func (s *vjScenario) msgOf(m *Message) int {
	for k := range s.msgs {
		if s.msgs[k] == m {
			return k
		}
		if s.copies != nil && s.copies[k] == m {
			return k + 100 // the ID-carrying copy of message k
		}
	}
	return -1
}

// vjRun builds and runs one configuration.
// replayer: 0 none, 1 contract without faults, 2 contract with symbolic faults.
func vjRun(nsub, nmsg, nshut int, cancel bool, clientFaults bool, replayer int, resume bool) *vjScenario {
	s := &vjScenario{nsub: nsub, nmsg: nmsg, nshut: nshut}
	s.env = &vjEnv{returned: make([]bool, nsub), nsub: nsub}
	s.j = &Joe{}
	sameMsg := verifParam("SAMEMSG", 0) == 1
	topicsMode := verifParam("TOPICS", 1) // 0: everything on the default topic; 1: symbolic one-byte topics
	mkTopics := func(tag string) []string {
		if topicsMode == 0 {
			return []string{DefaultTopic}
		}
		n := 1 + verifChoose(tag+".n", verifParam("NTOPICS", 1))
		t := make([]string, n)
		for i := range t {
			t[i] = verifNondetStringN(tag, 1)
		}
		return t
	}
	for k := 0; k < nmsg; k++ {
		m := &Message{}
		m.AppendData("m" + strconv.Itoa(k))
		if sameMsg {
			// one *Message published nmsg times (a reused keep-alive message): every
			// Publish is a publication of its own
			if k > 0 {
				m = s.msgs[0]
			} else {
				m.ID = ID("preset")
			}
		}
		s.msgs = append(s.msgs, m)
		s.mtopics = append(s.mtopics, mkTopics("mtopic"))
	}
	var rep *vjReplayer
	if replayer > 0 {
		for k := 0; k < nmsg; k++ {
			c := s.msgs[k].Clone()
			c.ID = ID("id" + strconv.Itoa(k))
			if sameMsg {
				c = s.msgs[0] // a replayer with caller-provided IDs hands the message itself back
			}
			s.copies = append(s.copies, c)
		}
		rep = &vjReplayer{env: s.env, msgs: s.msgs, copies: s.copies, topics: s.mtopics, faults: replayer == 2, sameMsg: sameMsg}
		s.j.Replayer = rep
	}
	s.subErr = make([]error, nsub)
	s.pubErr = make([]error, nmsg)
	s.pubDone = make([]bool, nmsg)
	s.shutErr = make([]error, nshut)
	s.shutDone = make([]bool, nshut)
	s.shutCtxDone = make([]bool, nshut)
	subs := make([]Subscription, nsub)
	// GATE=1: a pipelined consumer - its Send makes progress only once the publisher has got
	// all its Publish calls back (delivered or ErrProviderClosed). Such a Send returns as long
	// as Joe keeps his promise that every Publish returns once Shutdown was called.
	var gate chan struct{}
	if verifParam("GATE", 0) >= 1 {
		gate = make(chan struct{})
	}
	for i := 0; i < nsub; i++ {
		ctx := &vhCtx{done: make(chan struct{})}
		s.ctxs = append(s.ctxs, ctx)
		if verifParam("EMPTYTOPICS", 0) == 1 && i == 0 {
			s.stopics = append(s.stopics, []string{}) // a subscription without topics (made through the Provider directly)
		} else {
			s.stopics = append(s.stopics, mkTopics("stopic"))
		}
		cl := &vjClient{env: s.env, i: i, msgOf: s.msgOf, canFail: clientFaults, gate: gate}
		subs[i] = Subscription{Client: cl, Topics: s.stopics[i]}
		if resume && replayer > 0 {
			// present: nothing, the ID of any message, or an ID that was never issued
			switch k := verifChoose("lid", nmsg+2); {
			case k < nmsg:
				subs[i].LastEventID = s.copies[k].ID
			case k == nmsg:
				subs[i].LastEventID = ID("never-issued")
			}
		}
		s.lids = append(s.lids, subs[i].LastEventID)
	}
	if rep != nil {
		rep.subIdx = func(sub Subscription) int {
			for i := range subs {
				if subs[i].Client == sub.Client {
					return i
				}
			}
			return -1
		}
	}
	// threads
	for i := 0; i < nsub; i++ {
		i := i
		verifGo(func() {
			err := s.j.Subscribe(s.ctxs[i], subs[i])
			s.env.mu.Lock()
			s.env.returned[i] = true
			s.subErr[i] = err
			s.env.mu.Unlock()
			s.env.add(vjEvent{kind: vjSubReturn, i: i, m: -1, err: err})
		})
		if cancel && i < verifParam("CANCELN", 99) {
			// the cancelling goroutine: the request is the moment the context's channel is
			// closed (the log entry is written in the same atomic step, before the subscriber
			// can react); where it falls relative to everything else is up to the scheduler
			verifGo(func() {
				s.ctxs[i].cancel()
				s.env.add(vjEvent{kind: vjCancelReq, i: i, m: -1})
			})
		}
	}
	if nmsg > 0 {
		verifGo(func() {
			for k := 0; k < nmsg; k++ {
				err := s.j.Publish(s.msgs[k], s.mtopics[k])
				s.pubErr[k] = err
				s.pubDone[k] = true
				s.env.add(vjEvent{kind: vjPubReturn, i: 0, m: k, err: err})
			}
			if gate != nil && verifParam("GATE", 0) == 1 {
				verifYield()
				close(gate)
			}
		})
	}
	for d := 0; d < nshut; d++ {
		d := d
		verifGo(func() {
			s.env.add(vjEvent{kind: vjShutdownReq, i: d, m: -1})
			sctx := &vhCtx{done: make(chan struct{})}
			if verifParam("SHUTCTX", 0) == 1 && verifChoose("shutdown-ctx-done", 2) == 1 {
				sctx.cancel() // the context given to Shutdown has already ended
				s.shutCtxDone[d] = true
			}
			if verifParam("SHUTCTX", 0) == 2 {
				// the context given to Shutdown ends at some arbitrary moment
				verifGo(func() {
					sctx.cancel()
					s.shutCtxDone[d] = true
				})
			}
			err := s.j.Shutdown(sctx)
			if err == nil && len(s.j.subscribers) != 0 {
				// nil means Joe's goroutine has exited (its exit happens-before this read) and
				// has released every subscriber on its way out
				s.unreleasedAtShutdown = true
			}
			s.shutErr[d] = err
			s.shutDone[d] = true
			s.env.add(vjEvent{kind: vjShutdownReturn, i: d, m: -1, err: err})
			if gate != nil && verifParam("GATE", 0) == 2 {
				// GATE=2: the consumer's Send makes progress once Shutdown has returned
				verifYield()
				close(gate)
			}
		})
	}
	s.unfinished = verifRunThreads(verifParam("STEPS", 400))
	if verifParam("OUTCOME", 0) == 1 {
		verifOutcome(s.summary())
	}
	return s
}

func vjErrName(e error) string {
	switch e {
	case nil:
		return "nil"
	case vjErrSend, vjErrSendCanceled:
		return "send"
	case vjErrFlush:
		return "flush"
	case vjErrPut:
		return "put"
	case vjErrReplay:
		return "replay"
	case ErrProviderClosed:
		return "closed"
	}
	return "other"
}

// summary: what each party observed, independent of how independent events were interleaved.
func (s *vjScenario) summary() string {
	out := "unfinished=" + strconv.Itoa(s.unfinished)
	if verifCrashed() {
		out += " crashed"
	}
	for i := 0; i < s.nsub; i++ {
		out += " S" + strconv.Itoa(i) + "["
		for _, e := range s.env.log {
			if (e.kind == vjSend || e.kind == vjFlush) && e.i == i {
				out += strconv.Itoa(e.kind) + ":" + strconv.Itoa(e.m) + ":" + vjErrName(e.err) + ","
			}
		}
		out += "]ret=" + strconv.FormatBool(s.env.returned[i]) + ":" + vjErrName(s.subErr[i])
	}
	for k := 0; k < s.nmsg; k++ {
		out += " P" + strconv.Itoa(k) + "=" + strconv.FormatBool(s.pubDone[k]) + ":" + vjErrName(s.pubErr[k])
	}
	for d := 0; d < s.nshut; d++ {
		out += " D" + strconv.Itoa(d) + "=" + strconv.FormatBool(s.shutDone[d]) + ":" + vjErrName(s.shutErr[d])
	}
	out += " L["
	for _, e := range s.env.log {
		if e.kind == vjPut || e.kind == vjReplay {
			out += strconv.Itoa(e.kind) + ":" + strconv.Itoa(e.i) + ":" + strconv.Itoa(e.m) + ","
		}
	}
	return out + "]"
}

func (s *vjScenario) pos(kind, i, m int) int {
	for p, e := range s.env.log {
		if e.kind == kind && (i < 0 || e.i == i) && (m < -1 || e.m == m) {
			return p
		}
	}
	return -1
}

// first position of an error returned by client i's Send/Flush (or -1)
func (s *vjScenario) firstClientError(i int) (int, error) {
	for p, e := range s.env.log {
		if (e.kind == vjSend || e.kind == vjFlush) && e.i == i && e.err != nil {
			return p, e.err
		}
	}
	return -1, nil
}

// ---- C06: no crash, no use after return, Subscribe's result ----
func (s *vjScenario) checkC06() {
	verifAssert(!verifCrashed(), "C06/joe-never-panics")
	verifAssert(!s.env.usedAfterRet, "C06/message-writer-never-called-after-Subscribe-returned")
	firstShut := s.pos(vjShutdownReq, -1, -2)
	for i := 0; i < s.nsub; i++ {
		ret := s.pos(vjSubReturn, i, -2)
		if ret < 0 {
			continue
		}
		err := s.subErr[i]
		ep, cerr := s.firstClientError(i)
		cancelBefore := false
		if cp := s.pos(vjCancelReq, i, -2); cp >= 0 && cp < ret {
			cancelBefore = true
		}
		shutBefore := firstShut >= 0 && firstShut < ret
		replayFailed := false
		for _, e := range s.env.log {
			if e.kind == vjReplay && e.i == i && e.m == -1 {
				_ = e
			}
		}
		switch {
		case err == nil:
			// ended through cancellation or shutdown (an own error may be lost only if one of them raced it)
			verifAssert(cancelBefore || shutBefore, "C06/Subscribe-returns-nil-only-after-cancellation-or-shutdown")
			if ep >= 0 {
				verifCover("C06/error-and-cancellation-raced")
			}
		case err == ErrProviderClosed:
			verifAssert(shutBefore, "C06/ErrProviderClosed-only-after-shutdown")
		case err == vjErrReplay:
			replayFailed = true
			verifCover("C06/replay-error-returned")
		default:
			verifAssert(ep >= 0 && err == cerr, "C06/Subscribe-returns-its-own-first-Send-or-Flush-error")
			verifCover("C06/own-error-returned")
		}
		if ep >= 0 && !cancelBefore && !shutBefore {
			verifAssert(err == cerr, "C06/own-error-returned-when-nothing-else-ended-the-subscription")
		}
		_ = replayFailed
	}
}

// ---- C07: everything terminates ----
func (s *vjScenario) checkC07() {
	verifAssert(!verifCrashed(), "C07/no-crash")
	if s.nshut > 0 {
		verifAssert(s.unfinished == 0, "C07/after-Shutdown-every-call-returns-and-joe-exits")
		closed := false
		select {
		case <-s.j.closed:
			closed = true
		default:
		}
		verifAssert(closed, "C07/joe-goroutine-exited")
		nilCount := 0
		for d := 0; d < s.nshut; d++ {
			verifAssert(s.shutDone[d], "C07/Shutdown-returns")
			switch {
			case s.shutErr[d] == nil:
				nilCount++
			case s.shutCtxDone[d] && s.shutErr[d] == context.Canceled:
				nilCount++ // the winning Shutdown may report its own context's error instead
			default:
				verifAssert(s.shutErr[d] == ErrProviderClosed, "C07/repeated-Shutdown-returns-ErrProviderClosed")
			}
		}
		verifAssert(nilCount == 1, "C07/exactly-one-Shutdown-returns-nil-or-its-context-error")
		verifAssert(!s.unreleasedAtShutdown, "C07/Shutdown-returns-nil-only-once-all-subscribers-are-released")
		for i := 0; i < s.nsub; i++ {
			verifAssert(s.env.returned[i], "C07/every-Subscribe-returns-after-Shutdown")
		}
		for k := 0; k < s.nmsg; k++ {
			verifAssert(s.pubDone[k], "C07/every-Publish-returns-after-Shutdown")
			ok := s.pubErr[k] == nil || s.pubErr[k] == ErrProviderClosed || s.pubErr[k] == vjErrPut
			verifAssert(ok, "C07/Publish-returns-nil-put-error-or-ErrProviderClosed")
		}
		verifCover("C07/shutdown-scenario")
	} else {
		// no Shutdown: only Joe's own goroutine may remain (idle in its select), provided every subscriber was cancelled
		verifAssert(s.unfinished <= 1, "C07/no-call-blocks-forever-once-every-subscriber-is-cancelled")
	}
}

func vhC06Joe() {
	s := vjRun(verifParam("NSUB", 1), verifParam("NMSG", 1), verifParam("NSHUT", 0), verifParam("CANCEL", 1) == 1, true, verifParam("REPLAYER", 0), false)
	s.checkC06()
}

func vhC07Joe() {
	s := vjRun(verifParam("NSUB", 1), verifParam("NMSG", 1), verifParam("NSHUT", 1), verifParam("CANCEL", 1) == 1, verifParam("FAULTS", 0) == 1, verifParam("REPLAYER", 0), false)
	s.checkC07()
}

func vjMatches(a, b []string) bool { return vhTopicsIntersect(a, b) }

// base message index of a logged Send (copies carry +100)
func vjBase(m int) int {
	if m >= 100 {
		return m - 100
	}
	return m
}

// ---- C03 / C17: exactly-once, in-order, complete and isolated delivery ----
// Needs the contract replayer (its Put/Replay calls are the linearisation witness:
// the order in which Joe accepted messages and registered subscribers).
func (s *vjScenario) checkDelivery(prefix string) {
	log := s.env.log
	// positions
	putPos := make([]int, s.nmsg)
	for k := range putPos {
		putPos[k] = -1
	}
	regPos := make([]int, s.nsub)
	for i := range regPos {
		regPos[i] = -1
	}
	for p, e := range log {
		if e.kind == vjPut && e.m >= 0 && putPos[e.m] < 0 {
			putPos[e.m] = p
		}
		if e.kind == vjReplay && e.i >= 0 && regPos[e.i] < 0 {
			regPos[e.i] = p
		}
	}
	for i := 0; i < s.nsub; i++ {
		cancelPos := s.pos(vjCancelReq, i, -2)
		errPos, _ := s.firstClientError(i)
		// once a Send/Flush of i has failed, i has been removed: nothing more is handed to it
		if errPos >= 0 {
			for p, e := range log {
				if (e.kind == vjSend || e.kind == vjFlush) && e.i == i && p > errPos {
					verifAssert(false, prefix+"/nothing-handed-to-a-subscriber-after-it-failed")
				}
			}
		}
		if verifParam("SAMEMSG", 0) == 1 {
			// the Sends cannot be told apart: count them. At least one per publication
			// the subscriber is owed, at most one per accepted publication that matches.
			sends, owed, allowed := 0, 0, 0
			for _, e := range log {
				if e.kind == vjSend && e.i == i {
					sends++
				}
			}
			for k := 0; k < s.nmsg; k++ {
				if putPos[k] < 0 || !vjMatches(s.stopics[i], s.mtopics[k]) {
					continue
				}
				allowed++
				if regPos[i] >= 0 && regPos[i] < putPos[k] && (errPos < 0 || errPos > putPos[k]) && (cancelPos < 0 || cancelPos > putPos[k]) {
					owed++
				}
			}
			verifAssert(sends <= allowed, prefix+"/no-message-handed-twice-to-a-subscriber")
			verifAssert(sends >= owed, prefix+"/every-registered-matching-subscriber-gets-the-message")
			if owed > 0 {
				verifCover(prefix + "/delivery-obligation")
			}
			if owed > 1 {
				verifCover(prefix + "/same-message-owed-twice")
			}
		}
		lastSent := -1 // put position of the last message sent to i
		for k := 0; k < s.nmsg && verifParam("SAMEMSG", 0) == 0; k++ {
			// Send calls for message k to subscriber i
			n := 0
			firstSend := -1
			for p, e := range log {
				if e.kind == vjSend && e.i == i && vjBase(e.m) == k {
					n++
					if firstSend < 0 {
						firstSend = p
					}
				}
			}
			verifAssert(n <= 1, prefix+"/no-message-handed-twice-to-a-subscriber")
			if n > 0 {
				verifAssert(vjMatches(s.stopics[i], s.mtopics[k]), prefix+"/sent-only-to-subscribers-whose-topics-intersect")
				if putPos[k] >= 0 {
					verifAssert(putPos[k] > lastSent, prefix+"/each-subscriber-sees-joes-serialisation-order")
					lastSent = putPos[k]
				}
				if s.copies != nil && putPos[k] >= 0 && log[putPos[k]].err == nil {
					// the ID-carrying copy returned by Put is what is fanned out (same ID live and replayed)
					for _, e := range log {
						if e.kind == vjSend && e.i == i && vjBase(e.m) == k {
							verifAssert(e.m >= 100, prefix+"/fanned-out-message-is-the-one-returned-by-Put")
						}
					}
				}
			}
			// completeness: registered before Joe accepted the message, matching, not yet failed, not yet asked to leave
			if putPos[k] >= 0 && regPos[i] >= 0 && regPos[i] < putPos[k] && vjMatches(s.stopics[i], s.mtopics[k]) &&
				(errPos < 0 || errPos > putPos[k]) && (cancelPos < 0 || cancelPos > putPos[k]) && !s.lids[i].IsSet() {
				replayFailed := false
				for _, e := range log {
					if e.kind == vjReplay && e.i == i && e.err != nil {
						replayFailed = true
					}
				}
				// a failing client earlier in this very fan-out must not matter either (isolation)
				if !replayFailed {
					verifAssert(n == 1, prefix+"/every-registered-matching-subscriber-gets-the-message")
					verifCover(prefix + "/delivery-obligation")
				}
			}
		}
		// every successful Send is followed by a Flush of the same subscriber before Joe does anything else
		for p, e := range log {
			if e.kind == vjSend && e.i == i && e.err == nil && (regPos[i] < 0 || p > regPos[i] || true) {
				// next Joe-side event
				q := p + 1
				for q < len(log) && (log[q].kind == vjPubReturn || log[q].kind == vjCancelReq || log[q].kind == vjSubReturn || log[q].kind == vjShutdownReq || log[q].kind == vjShutdownReturn) {
					q++
				}
				inReplay := false
				for r := p; r >= 0; r-- {
					if log[r].kind == vjReplay && log[r].i == i {
						inReplay = true
						break
					}
					if log[r].kind == vjPut {
						break
					}
				}
				if !inReplay {
					verifAssert(q < len(log) && log[q].kind == vjFlush && log[q].i == i, prefix+"/every-Send-is-followed-by-a-Flush")
				}
			}
		}
	}
	// one publisher: Joe's serialisation respects its program order
	last := -1
	for k := 0; k < s.nmsg; k++ {
		if putPos[k] >= 0 {
			verifAssert(putPos[k] > last, prefix+"/publisher-program-order-respected")
			last = putPos[k]
		}
	}
	// Publish: nil, or the replayer's error, or ErrProviderClosed; a Put error is returned by that Publish
	for k := 0; k < s.nmsg; k++ {
		if !s.pubDone[k] {
			continue
		}
		if putPos[k] >= 0 && log[putPos[k]].err != nil && log[putPos[k]].i == -1 {
			verifAssert(s.pubErr[k] == vjErrPut, prefix+"/Put-error-is-returned-by-that-Publish")
			verifCover(prefix + "/put-error")
		}
		if putPos[k] >= 0 && log[putPos[k]].i == -2 {
			verifAssert(s.pubErr[k] == nil, prefix+"/replayer-panic-Publish-proceeds-as-without-replayer")
			verifCover(prefix + "/put-panic")
		}
		if s.pubErr[k] == ErrProviderClosed {
			verifAssert(putPos[k] < 0, prefix+"/ErrProviderClosed-means-not-accepted")
		}
	}
	verifAssert(!s.env.usedAfterPanic, prefix+"/replayer-never-used-after-it-panicked")
}

func vhC03Joe() {
	s := vjRun(verifParam("NSUB", 2), verifParam("NMSG", 2), verifParam("NSHUT", 0), verifParam("CANCEL", 0) == 1, verifParam("FAULTS", 0) == 1, 1, false)
	verifAssert(!verifCrashed(), "C03/no-crash")
	// "still registered": once a Subscribe call has returned, its subscriber gets nothing more
	verifAssert(!s.env.usedAfterRet, "C03/nothing-handed-to-a-subscriber-whose-Subscribe-returned")
	s.checkDelivery("C03")
}

func vhC17Joe() {
	s := vjRun(verifParam("NSUB", 2), verifParam("NMSG", 1), verifParam("NSHUT", 0), verifParam("CANCEL", 0) == 1, true, verifParam("REPLAYER", 2), false)
	verifAssert(!verifCrashed(), "C17/no-crash")
	s.checkDelivery("C17")
	s.checkC06()
}

// ---- C04: resuming subscribers ----
func vhC04Joe() {
	s := vjRun(verifParam("NSUB", 1), verifParam("NMSG", 2), 0, false, verifParam("FAULTS", 0) == 1, 1, true)
	verifAssert(!verifCrashed(), "C04/no-crash")
	log := s.env.log
	for i := 0; i < s.nsub; i++ {
		reg := -1
		for p, e := range log {
			if e.kind == vjReplay && e.i == i {
				reg = p
			}
		}
		if reg < 0 {
			continue
		}
		// the stamp the subscriber presented
		lidMsg := -1
		for k := 0; k < s.nmsg; k++ {
			if s.lids[i].IsSet() && s.copies[k].ID == s.lids[i] {
				lidMsg = k
			}
		}
		lidPut := -1
		if lidMsg >= 0 {
			lidPut = s.pos(vjPut, -1, lidMsg)
		}
		// expected: every message put after the presented one (if it was put before the subscription
		// was processed), else every message put after registration - matching, once, in put order
		var want []int
		for p, e := range log {
			if e.kind != vjPut || e.err != nil {
				continue
			}
			if !vjMatches(s.stopics[i], s.mtopics[e.m]) {
				continue
			}
			after := p > reg
			if lidPut >= 0 && lidPut < reg {
				after = p > lidPut
			}
			if after {
				want = append(want, e.m)
			}
		}
		var got []int
		for _, e := range log {
			if e.kind == vjSend && e.i == i {
				got = append(got, vjBase(e.m))
				verifAssert(e.m >= 100, "C04/event-carries-the-same-ID-live-and-replayed")
			}
		}
		// a subscriber whose own Send/Flush failed gets the sequence up to that failure;
		// everybody else - whoever failed meanwhile - gets all of it
		errPos, _ := s.firstClientError(i)
		same := len(got) == len(want) || (errPos >= 0 && len(got) <= len(want))
		if same {
			for x := range got {
				if got[x] != want[x] {
					same = false
				}
			}
		}
		verifAssert(same, "C04/resumed-subscriber-gets-exactly-the-missed-then-the-live-events-in-order")
		if lidPut >= 0 && lidPut < reg && len(want) > 0 {
			verifCover("C04/replayed-something")
		}
		if len(got) > 0 {
			verifCover("C04/delivered")
		}
	}
}
