package sse

import (
	"errors"
	"strconv"
	"sync"
)

// C03 C04 C06 C07 C17 — Joe under every interleaving of a bounded configuration.
// The goroutines below are interpreted threads under the executor (the
// scheduler forks over every enabled visible operation); all outcomes of the
// environment (Send/Flush/Put/Replay failures, topic matches) are symbolic.

const (
	vjSend = iota
	vjFlush
	vjPut
	vjReplay
	vjPubReturn
	vjCancelReq
	vjSubReturn
	vjShutdownReq
	vjShutdownReturn
)

type vjEvent struct {
	kind int
	i    int // subscriber (or publisher index for PubReturn)
	m    int // message index (-1 n/a)
	err  error
}

type vjEnv struct {
	mu            sync.Mutex // natively the goroutines are real: the monitors need a lock
	log           []vjEvent
	returned      []bool
	usedAfterRet  bool
	replayerPanic bool // the replayer has panicked once
	usedAfterPanic bool
	puts          []int // message indices in Put order (stamps)
	nsub          int
}

func (e *vjEnv) add(ev vjEvent) int {
	e.mu.Lock()
	defer e.mu.Unlock()
	e.log = append(e.log, ev)
	return len(e.log) - 1
}

func (e *vjEnv) isReturned(i int) bool {
	e.mu.Lock()
	defer e.mu.Unlock()
	return e.returned[i]
}

var (
	vjErrSend   = errors.New("verif: subscriber Send failed")
	vjErrFlush  = errors.New("verif: subscriber Flush failed")
	vjErrPut    = errors.New("verif: replayer Put failed")
	vjErrReplay = errors.New("verif: replayer Replay failed")
)

type vjClient struct {
	env   *vjEnv
	i     int
	msgOf func(*Message) int
	canFail bool
}

func (c *vjClient) Send(m *Message) error {
	if c.env.isReturned(c.i) {
		c.env.usedAfterRet = true
	}
	var err error
	if c.canFail && verifNondetBool("sendfails") {
		err = vjErrSend
	}
	c.env.add(vjEvent{kind: vjSend, i: c.i, m: c.msgOf(m), err: err})
	return err
}

func (c *vjClient) Flush() error {
	if c.env.isReturned(c.i) {
		c.env.usedAfterRet = true
	}
	var err error
	if c.canFail && verifNondetBool("flushfails") {
		err = vjErrFlush
	}
	c.env.add(vjEvent{kind: vjFlush, i: c.i, m: -1, err: err})
	return err
}

// vjReplayer is the replayer *contract* as an environment: Put stamps the message
// (returning a copy that carries the stamp), Replay delivers exactly the stamped
// messages after the presented one that match, in order. Each call may also fail
// or panic (symbolic choice).
type vjReplayer struct {
	env     *vjEnv
	msgs    []*Message
	copies  []*Message // copies[k]: the ID-carrying copy of msgs[k] handed out by Put
	topics  [][]string
	faults  bool
	subIdx  func(Subscription) int
}

func (r *vjReplayer) Put(m *Message, topics []string) (*Message, error) {
	if r.env.replayerPanic {
		r.env.usedAfterPanic = true
	}
	k := -1
	for i := range r.msgs {
		if r.msgs[i] == m {
			k = i
		}
	}
	outcome := 0
	if r.faults {
		outcome = verifChoose("put-outcome", 3)
	}
	switch outcome {
	case 1:
		r.env.add(vjEvent{kind: vjPut, i: -1, m: k, err: vjErrPut})
		return nil, vjErrPut
	case 2:
		r.env.replayerPanic = true
		r.env.add(vjEvent{kind: vjPut, i: -2, m: k, err: vjErrPut})
		panic("verif: replayer panics in Put")
	}
	r.env.puts = append(r.env.puts, k)
	r.env.add(vjEvent{kind: vjPut, i: -1, m: k})
	return r.copies[k], nil
}

func (r *vjReplayer) Replay(sub Subscription) error {
	if r.env.replayerPanic {
		r.env.usedAfterPanic = true
	}
	i := r.subIdx(sub)
	outcome := 0
	if r.faults {
		outcome = verifChoose("replay-outcome", 3)
	}
	if outcome == 2 {
		r.env.replayerPanic = true
		r.env.add(vjEvent{kind: vjReplay, i: i, m: -2, err: vjErrReplay})
		panic("verif: replayer panics in Replay")
	}
	r.env.add(vjEvent{kind: vjReplay, i: i, m: -1})
	if outcome == 1 {
		return vjErrReplay
	}
	// contract: everything stamped after the presented ID that matches, in stamp order
	if !sub.LastEventID.IsSet() {
		return nil
	}
	start := -1
	for p, k := range r.env.puts {
		if r.copies[k].ID == sub.LastEventID {
			start = p
		}
	}
	if start < 0 {
		return nil
	}
	sent := false
	for _, k := range r.env.puts[start+1:] {
		if vhTopicsIntersect(sub.Topics, r.topics[k]) {
			if err := sub.Client.Send(r.copies[k]); err != nil {
				return err
			}
			sent = true
		}
	}
	if sent {
		return sub.Client.Flush()
	}
	return nil
}

type vjScenario struct {
	env      *vjEnv
	j        *Joe
	msgs     []*Message
	copies   []*Message
	mtopics  [][]string
	stopics  [][]string
	ctxs     []*vhCtx
	subErr   []error
	pubErr   []error
	pubDone  []bool
	shutErr  []error
	shutDone []bool
	lids     []EventID
	nsub, nmsg, nshut int
	unfinished int
}

func (s *vjScenario) msgOf(m *Message) int {
	for k := range s.msgs {
		if s.msgs[k] == m {
			return k
		}
		if s.copies != nil && s.copies[k] == m {
			return k + 100 // the ID-carrying copy of message k
		}
	}
	return -1
}

// vjRun builds and runs one configuration.
// replayer: 0 none, 1 contract without faults, 2 contract with symbolic faults.
func vjRun(nsub, nmsg, nshut int, cancel bool, clientFaults bool, replayer int, resume bool) *vjScenario {
	s := &vjScenario{nsub: nsub, nmsg: nmsg, nshut: nshut}
	s.env = &vjEnv{returned: make([]bool, nsub), nsub: nsub}
	s.j = &Joe{}
	topicsMode := verifParam("TOPICS", 1) // 0: everything on the default topic; 1: symbolic one-byte topics
	mkTopics := func(tag string) []string {
		if topicsMode == 0 {
			return []string{DefaultTopic}
		}
		n := 1 + verifChoose(tag+".n", verifParam("NTOPICS", 1))
		t := make([]string, n)
		for i := range t {
			t[i] = verifNondetStringN(tag, 1)
		}
		return t
	}
	for k := 0; k < nmsg; k++ {
		m := &Message{}
		m.AppendData("m" + strconv.Itoa(k))
		s.msgs = append(s.msgs, m)
		s.mtopics = append(s.mtopics, mkTopics("mtopic"))
	}
	var rep *vjReplayer
	if replayer > 0 {
		for k := 0; k < nmsg; k++ {
			c := s.msgs[k].Clone()
			c.ID = ID("id" + strconv.Itoa(k))
			s.copies = append(s.copies, c)
		}
		rep = &vjReplayer{env: s.env, msgs: s.msgs, copies: s.copies, topics: s.mtopics, faults: replayer == 2}
		s.j.Replayer = rep
	}
	s.subErr = make([]error, nsub)
	s.pubErr = make([]error, nmsg)
	s.pubDone = make([]bool, nmsg)
	s.shutErr = make([]error, nshut)
	s.shutDone = make([]bool, nshut)
	subs := make([]Subscription, nsub)
	for i := 0; i < nsub; i++ {
		ctx := &vhCtx{done: make(chan struct{})}
		s.ctxs = append(s.ctxs, ctx)
		s.stopics = append(s.stopics, mkTopics("stopic"))
		cl := &vjClient{env: s.env, i: i, msgOf: s.msgOf, canFail: clientFaults}
		subs[i] = Subscription{Client: cl, Topics: s.stopics[i]}
		if resume && replayer > 0 {
			// present: nothing, the ID of any message, or an ID that was never issued
			switch k := verifChoose("lid", nmsg+2); {
			case k < nmsg:
				subs[i].LastEventID = s.copies[k].ID
			case k == nmsg:
				subs[i].LastEventID = ID("never-issued")
			}
		}
		s.lids = append(s.lids, subs[i].LastEventID)
	}
	if rep != nil {
		rep.subIdx = func(sub Subscription) int {
			for i := range subs {
				if subs[i].Client == sub.Client {
					return i
				}
			}
			return -1
		}
	}
	// threads
	for i := 0; i < nsub; i++ {
		i := i
		verifGo(func() {
			err := s.j.Subscribe(s.ctxs[i], subs[i])
			s.env.mu.Lock()
			s.env.returned[i] = true
			s.subErr[i] = err
			s.env.mu.Unlock()
			s.env.add(vjEvent{kind: vjSubReturn, i: i, m: -1, err: err})
		})
		if cancel {
			verifGo(func() {
				s.env.add(vjEvent{kind: vjCancelReq, i: i, m: -1})
				s.ctxs[i].cancel()
			})
		}
	}
	if nmsg > 0 {
		verifGo(func() {
			for k := 0; k < nmsg; k++ {
				err := s.j.Publish(s.msgs[k], s.mtopics[k])
				s.pubErr[k] = err
				s.pubDone[k] = true
				s.env.add(vjEvent{kind: vjPubReturn, i: 0, m: k, err: err})
			}
		})
	}
	for d := 0; d < nshut; d++ {
		d := d
		verifGo(func() {
			s.env.add(vjEvent{kind: vjShutdownReq, i: d, m: -1})
			err := s.j.Shutdown(&vhCtx{done: make(chan struct{})})
			s.shutErr[d] = err
			s.shutDone[d] = true
			s.env.add(vjEvent{kind: vjShutdownReturn, i: d, m: -1, err: err})
		})
	}
	s.unfinished = verifRunThreads(verifParam("STEPS", 400))
	return s
}

func (s *vjScenario) pos(kind, i, m int) int {
	for p, e := range s.env.log {
		if e.kind == kind && (i < 0 || e.i == i) && (m < -1 || e.m == m) {
			return p
		}
	}
	return -1
}

// first position of an error returned by client i's Send/Flush (or -1)
func (s *vjScenario) firstClientError(i int) (int, error) {
	for p, e := range s.env.log {
		if (e.kind == vjSend || e.kind == vjFlush) && e.i == i && e.err != nil {
			return p, e.err
		}
	}
	return -1, nil
}

// ---- C06: no crash, no use after return, Subscribe's result ----
func (s *vjScenario) checkC06() {
	verifAssert(!verifCrashed(), "C06/joe-never-panics")
	verifAssert(!s.env.usedAfterRet, "C06/message-writer-never-called-after-Subscribe-returned")
	firstShut := s.pos(vjShutdownReq, -1, -2)
	for i := 0; i < s.nsub; i++ {
		ret := s.pos(vjSubReturn, i, -2)
		if ret < 0 {
			continue
		}
		err := s.subErr[i]
		ep, cerr := s.firstClientError(i)
		cancelBefore := false
		if cp := s.pos(vjCancelReq, i, -2); cp >= 0 && cp < ret {
			cancelBefore = true
		}
		shutBefore := firstShut >= 0 && firstShut < ret
		replayFailed := false
		for _, e := range s.env.log {
			if e.kind == vjReplay && e.i == i && e.m == -1 {
				_ = e
			}
		}
		switch {
		case err == nil:
			// ended through cancellation or shutdown (an own error may be lost only if one of them raced it)
			verifAssert(cancelBefore || shutBefore, "C06/Subscribe-returns-nil-only-after-cancellation-or-shutdown")
			if ep >= 0 {
				verifCover("C06/error-and-cancellation-raced")
			}
		case err == ErrProviderClosed:
			verifAssert(shutBefore, "C06/ErrProviderClosed-only-after-shutdown")
		case err == vjErrReplay:
			replayFailed = true
			verifCover("C06/replay-error-returned")
		default:
			verifAssert(ep >= 0 && err == cerr, "C06/Subscribe-returns-its-own-first-Send-or-Flush-error")
			verifCover("C06/own-error-returned")
		}
		if ep >= 0 && !cancelBefore && !shutBefore {
			verifAssert(err == cerr, "C06/own-error-returned-when-nothing-else-ended-the-subscription")
		}
		_ = replayFailed
	}
}

// ---- C07: everything terminates ----
func (s *vjScenario) checkC07() {
	verifAssert(!verifCrashed(), "C07/no-crash")
	if s.nshut > 0 {
		verifAssert(s.unfinished == 0, "C07/after-Shutdown-every-call-returns-and-joe-exits")
		closed := false
		select {
		case <-s.j.closed:
			closed = true
		default:
		}
		verifAssert(closed, "C07/joe-goroutine-exited")
		nilCount := 0
		for d := 0; d < s.nshut; d++ {
			verifAssert(s.shutDone[d], "C07/Shutdown-returns")
			if s.shutErr[d] == nil {
				nilCount++
			} else {
				verifAssert(s.shutErr[d] == ErrProviderClosed, "C07/repeated-Shutdown-returns-ErrProviderClosed")
			}
		}
		verifAssert(nilCount == 1, "C07/exactly-one-Shutdown-returns-nil")
		for i := 0; i < s.nsub; i++ {
			verifAssert(s.env.returned[i], "C07/every-Subscribe-returns-after-Shutdown")
		}
		for k := 0; k < s.nmsg; k++ {
			verifAssert(s.pubDone[k], "C07/every-Publish-returns-after-Shutdown")
			ok := s.pubErr[k] == nil || s.pubErr[k] == ErrProviderClosed || s.pubErr[k] == vjErrPut
			verifAssert(ok, "C07/Publish-returns-nil-put-error-or-ErrProviderClosed")
		}
		verifCover("C07/shutdown-scenario")
	} else {
		// no Shutdown: only Joe's own goroutine may remain (idle in its select), provided every subscriber was cancelled
		verifAssert(s.unfinished <= 1, "C07/no-call-blocks-forever-once-every-subscriber-is-cancelled")
	}
}

func vhC06Joe() {
	s := vjRun(verifParam("NSUB", 1), verifParam("NMSG", 1), verifParam("NSHUT", 0), verifParam("CANCEL", 1) == 1, true, verifParam("REPLAYER", 0), false)
	s.checkC06()
}

func vhC07Joe() {
	s := vjRun(verifParam("NSUB", 1), verifParam("NMSG", 1), verifParam("NSHUT", 1), verifParam("CANCEL", 1) == 1, verifParam("FAULTS", 0) == 1, verifParam("REPLAYER", 0), false)
	s.checkC07()
}
