package sse

import (
	"math/rand"
	"net/http"
	"time"
)

// C12 — retry schedule follows the Backoff configuration.

// mergeDefaults on a fully symbolic configuration.
func vhC12Merge() {
	b := Backoff{
		InitialInterval: time.Duration(verifNondetInt64("initial")),
		Multiplier:      verifNondetFloat("multiplier"),
		Jitter:          verifNondetFloat("jitter"),
		MaxInterval:     time.Duration(verifNondetInt64("maxinterval")),
		MaxElapsedTime:  time.Duration(verifNondetInt64("maxelapsed")),
		MaxRetries:      int(verifNondetInt64("maxretries")),
	}
	verifAssume(b.Multiplier == b.Multiplier && b.Jitter == b.Jitter) // not NaN
	in := b
	c := &Client{Backoff: b}
	if verifNondetBool("hasclient") {
		c.HTTPClient = &http.Client{}
	}
	hc := c.HTTPClient
	mergeDefaults(c)
	out := c.Backoff
	if in.InitialInterval > 0 {
		verifAssert(out.InitialInterval == in.InitialInterval, "C12/Merge/positive-initial-interval-kept")
	} else {
		verifAssert(out.InitialInterval == 500*time.Millisecond, "C12/Merge/initial-interval-default-500ms")
	}
	if in.Multiplier >= 1 {
		verifAssert(out.Multiplier == in.Multiplier, "C12/Merge/multiplier-at-least-1-kept")
	} else {
		verifAssert(out.Multiplier == 1.5, "C12/Merge/multiplier-default-1.5")
	}
	switch {
	case in.Jitter > 0 && in.Jitter < 1:
		verifAssert(out.Jitter == in.Jitter, "C12/Merge/jitter-in-range-kept")
	case in.Jitter == -1:
		verifAssert(out.Jitter == -1, "C12/Merge/jitter-minus-one-means-no-randomization-kept")
		verifCover("C12/Merge/jitter-minus-one")
	default:
		verifAssert(out.Jitter == 0.5, "C12/Merge/jitter-default-0.5")
	}
	verifAssert(out.MaxInterval == in.MaxInterval && out.MaxElapsedTime == in.MaxElapsedTime && out.MaxRetries == in.MaxRetries, "C12/Merge/limits-untouched")
	if hc != nil {
		verifAssert(c.HTTPClient == hc, "C12/Merge/http-client-kept")
	}
	verifAssert(c.ResponseValidator != nil, "C12/Merge/validator-defaulted")
}

// The backoff controller through a symbolic sequence of events.
func vhC12Logic() {
	if verifParam("SIMPLE", 0) == 1 {
		// one concrete configuration with jitter; only the random draws vary
		vhC12LogicWith(Backoff{InitialInterval: 1000, Multiplier: 2, Jitter: 0.5, MaxRetries: 0})
		return
	}
	cfg := Backoff{
		InitialInterval: []time.Duration{1, 1000, 3 * time.Second}[verifChoose("initial", 3)],
		Multiplier:      []float64{1, 1.5, 2}[verifChoose("mul", 3)],
		Jitter:          -1,
		MaxInterval:     []time.Duration{0, 2500, 7 * time.Second}[verifChoose("maxinterval", 3)],
		MaxElapsedTime:  time.Duration(verifNondetInt("maxelapsed", -1, 1<<40)),
		MaxRetries:      []int{-1, 0, 1, 3}[verifChoose("maxretries", 4)],
	}
	if verifParam("JITTER", 0) == 1 {
		cfg.Jitter = []float64{0.5, 0.25, 0.9}[verifChoose("jitter", 3)]
	}
	vhC12LogicWith(cfg)
}

// vhExtremeSource (native replay of RANDEXTREMES=1 vectors): the generator's draws are the
// recorded ones - 0, 1/2 or the largest float below 1 (Float64 = (Int63 & (2^53-1)) / 2^53).
type vhExtremeSource struct{}

func (vhExtremeSource) Int63() int64 {
	return []int64{0, 1 << 52, 1<<53 - 1}[verifChoose("rand.Float64", 3)]
}
func (vhExtremeSource) Seed(int64) {}

func vhC12LogicWith(cfg Backoff) {
	ctl := cfg.new()
	if verifParam("RANDEXTREMES", 0) == 1 {
		ctl.rng = rand.New(vhExtremeSource{})
	}
	startNs := verifTimeNanos(ctl.start)
	if !verifSymbolic() {
		// native replay: the library reads the real clock, so the recorded clock values are
		// imposed by back-dating the controller's start time before every call
		startNs = vhNativeClock()
	}
	// model of the schedule
	base := cfg.InitialInterval
	b := base
	count := 0
	k := verifParam("K", 4)
	for step := 0; step < k; step++ {
		switch verifChoose("event", 2) {
		case 0: // a retry is requested
			if !verifSymbolic() {
				ctl.start = time.Now().Add(-time.Duration(vhNativeClock() - startNs))
			}
			wait, ok := ctl.next()
			nowNs := vhLastNow()
			elapsed := time.Duration(nowNs - startNs)
			// limits
			limitHit := cfg.MaxRetries < 0 || (cfg.MaxRetries > 0 && count == cfg.MaxRetries)
			if limitHit {
				verifAssert(!ok, "C12/Logic/no-retry-beyond-MaxRetries")
				verifCover("C12/Logic/limit-hit")
				continue
			}
			count++
			// expected wait for this retry
			lo, hi := b, b
			if cfg.Jitter != -1 {
				fb := float64(b)
				lo = time.Duration(fb - cfg.Jitter*fb)   // floor: durations are whole nanoseconds
				hi = time.Duration(fb+cfg.Jitter*fb) + 1 // ceil
			}
			// growth
			nb := time.Duration(float64(b) * cfg.Multiplier)
			if cfg.MaxInterval > 0 && nb > cfg.MaxInterval {
				nb = cfg.MaxInterval
			}
			if !ok {
				// only MaxElapsedTime may refuse here
				verifAssert(cfg.MaxElapsedTime > 0 && elapsed+hi > cfg.MaxElapsedTime, "C12/Logic/refusal-only-when-MaxElapsedTime-would-be-exceeded")
				verifCover("C12/Logic/elapsed-refusal")
			} else {
				verifAssert(wait >= lo && wait <= hi, "C12/Logic/wait-within-jitter-of-b_k")
				verifAssert(cfg.MaxElapsedTime <= 0 || elapsed+wait <= cfg.MaxElapsedTime, "C12/Logic/no-retry-once-MaxElapsedTime-would-be-exceeded")
				verifCover("C12/Logic/retry-granted")
			}
			verifAssert(ctl.interval == nb, "C12/Logic/next-base-is-min-of-b_k-times-multiplier-and-MaxInterval")
			b = nb
		case 1: // a connection succeeded, possibly carrying a server retry value
			d := []time.Duration{0, -5, 250 * time.Millisecond, 4 * time.Second}[verifChoose("reset", 4)]
			ctl.reset(d)
			if !verifSymbolic() {
				vhNativeClock()
			}
			if d > 0 {
				base = d
			} else {
				base = cfg.InitialInterval
			}
			b = base
			count = 0
			startNs = vhLastNow()
			verifAssert(ctl.interval == b && ctl.numRetries == 0, "C12/Logic/reset-restores-count-and-base-interval")
		}
	}
}

// vhLastNow: the instant most recently returned by the clock.
func vhLastNow() int64 {
	if verifSymbolic() {
		return verifLastNow()
	}
	return vhNativeNow
}

var vhNativeNow int64

// vhNativeClock (native replay only) takes the next recorded clock value.
func vhNativeClock() int64 {
	vhNativeNow = verifNondetInt64("time.Now")
	return vhNativeNow
}
