package sse

import (
	"strconv"
	"time"
)

// C09 / C18 / C19 (ValidReplayer) — one inductive step from an arbitrary ring
// state with arbitrary (non-decreasing) expiries and an arbitrary clock value.

type vhVEntry struct {
	msg    *Message
	topics []string
	exp    time.Time
}

type vhValidPre struct {
	r     *ValidReplayer
	alpha []vhVEntry
	now   time.Time
	first uint64
	auto  bool
}

func vhValidBuild() vhValidPre {
	auto := verifParam("AUTO", 0) == 1
	sizes := []int{0, 4, 8, 16}
	l := sizes[verifChoose("buflen", verifParam("SIZES", 3))]
	v := &ValidReplayer{}
	ttl := verifNondetInt("ttl", 1, 1<<40)
	v.ttl = time.Duration(ttl)
	v.GCInterval = time.Duration(verifNondetInt("gcinterval", -1, 1<<41))
	now := verifNondetTime("now")
	nowNs := verifTimeNanos(now)
	verifAssume(nowNs > 0 && nowNs < 1<<60)
	v.Now = func() time.Time { return now }
	if verifNondetBool("gcran") {
		lg := verifNondetTime("lastgc")
		verifAssume(verifTimeNanos(lg) > 0 && verifTimeNanos(lg) <= nowNs)
		v.lastGC = lg
	}
	pre := vhValidPre{r: v, now: now, auto: auto}
	if auto {
		pre.first = []uint64{0, 9, 255, 65535}[verifChoose("first", verifParam("FIRSTS", 2))]
	}
	count, head := 0, 0
	if l > 0 {
		v.messages.buf = make([]messageWithTopicsAndExpiry, l)
		maxCount := l
		if mc := verifParam("MAXCOUNT", 0); mc > 0 && mc < l {
			maxCount = mc
		}
		count = verifChoose("count", maxCount+1)
		head = verifChoose("head", l)
	}
	if auto {
		cur := pre.first + uint64(count)
		v.currentID = &cur
	}
	prevExp := int64(1)
	for k := 0; k < count; k++ {
		m := &Message{}
		m.AppendData("d" + strconv.Itoa(k))
		if auto {
			m.ID = ID(strconv.FormatUint(pre.first+uint64(k), 10))
		} else {
			id := verifNondetString("id", 1)
			verifAssume(vhSingleLine(id))
			for j := 0; j < k; j++ {
				verifAssume(pre.alpha[j].msg.ID.String() != id)
			}
			m.ID = ID(id)
		}
		exp := verifNondetTime("exp")
		e := verifTimeNanos(exp)
		// expiries are Put-time + ttl of a non-decreasing clock
		verifAssume(e >= prevExp && e <= nowNs+int64(ttl))
		prevExp = e
		ent := vhVEntry{msg: m, topics: vhTopics("etopic", verifParam("TOPICS", 1)), exp: exp}
		pre.alpha = append(pre.alpha, ent)
		v.messages.buf[(head+k)%l] = messageWithTopicsAndExpiry{exp: exp, messageWithTopics: messageWithTopics{message: m, topics: ent.topics}}
	}
	v.messages.head = head
	v.messages.count = count
	if l > 0 {
		v.messages.tail = (head + count) % l
	}
	return pre
}

func vhValidAlpha(prefix string, v *ValidReplayer) []vhVEntry {
	q := &v.messages
	n := len(q.buf)
	if n == 0 {
		verifAssert(q.head == 0 && q.tail == 0 && q.count == 0, prefix+"/inv-empty-buffer")
		return nil
	}
	ok := q.head >= 0 && q.head < n && q.tail >= 0 && q.tail < n && q.count >= 0 && q.count <= n
	verifAssert(ok, prefix+"/inv-indices-in-range")
	if !ok {
		return nil
	}
	verifAssert(q.tail == (q.head+q.count)%n, prefix+"/inv-tail-is-head-plus-count")
	var alpha []vhVEntry
	for k := 0; k < q.count; k++ {
		e := q.buf[(q.head+k)%n]
		alpha = append(alpha, vhVEntry{msg: e.message, topics: e.topics, exp: e.exp})
	}
	for k := q.count; k < n; k++ {
		e := q.buf[(q.head+k)%n]
		verifAssert(e.message == nil && e.topics == nil && e.exp.IsZero(), prefix+"/inv-dead-slots-are-zero")
	}
	for _, e := range q.buf[:cap(q.buf)][n:] {
		verifAssert(e.message == nil && e.topics == nil && e.exp.IsZero(), prefix+"/inv-no-hidden-slots-beyond-len")
	}
	return alpha
}

func vhSameVEntries(a, b []vhVEntry) bool {
	if len(a) != len(b) {
		return false
	}
	for i := range a {
		if a[i].msg != b[i].msg {
			return false
		}
	}
	return true
}

// the suffix of alpha that has not expired at `now` (expiries are monotonic)
func vhUnexpired(alpha []vhVEntry, now time.Time) []vhVEntry {
	k := 0
	for k < len(alpha) && !alpha[k].exp.After(now) {
		k++
	}
	return alpha[k:]
}

func vhValidReachable(v *ValidReplayer, m *Message) bool {
	return verifReachable(v, m)
}

func vhC09GC() {
	p := vhValidBuild()
	vhValidPreReplay(p)
	p.r.GC()
	alpha2 := vhValidAlpha("C09/GC", p.r)
	want := vhUnexpired(p.alpha, p.now)
	verifAssert(vhSameVEntries(alpha2, want), "C09/GC/drops-exactly-the-expired-prefix")
	if len(want) < len(p.alpha) {
		verifCover("C09/GC/collected-something")
	}
	// C18: collected messages are unreachable from the replayer
	for k := 0; k < len(p.alpha)-len(want); k++ {
		verifAssert(!vhValidReachable(p.r, p.alpha[k].msg), "C18/Valid/collected-message-unreachable")
	}
	verifAssert(len(p.r.messages.buf) >= 4 || len(p.alpha) == 0 || true, "C09/GC/buffer-present")
}

func vhC09Put() {
	p := vhValidBuild()
	v := p.r
	vhValidPreReplay(p)
	var curBefore uint64
	if p.auto {
		curBefore = *v.currentID
	}
	lastGCBefore := v.lastGC
	m := &Message{}
	m.AppendData("new")
	hasID := verifNondetBool("hasid")
	if hasID {
		id := verifNondetString("newid", 1)
		verifAssume(vhSingleLine(id))
		m.ID = ID(id)
	}
	ntop := verifChoose("ntopics", 3)
	var topics []string
	for i := 0; i < ntop; i++ {
		topics = append(topics, verifNondetStringN("ptopic", 1))
	}
	wireBefore := m.String()
	idBefore := m.ID
	oldWires := make([]string, len(p.alpha))
	for k := range p.alpha {
		oldWires[k] = p.alpha[k].msg.String()
	}

	got, err := v.Put(m, topics)

	for k := range p.alpha {
		verifAssert(got == nil || got != p.alpha[k].msg, "C19/Put/publication-is-a-fresh-object")
		verifAssert(p.alpha[k].msg.String() == oldWires[k], "C19/Put/earlier-publications-unchanged")
	}

	verifAssert(m.ID == idBefore && m.String() == wireBefore, "C09/Put/caller-message-unchanged")
	alpha2 := vhValidAlpha("C09/Put", v)

	// does this Put collect? (documented: when GCInterval > 0 and at least GCInterval passed since the last collection)
	collects := false
	if ntop > 0 && v.GCInterval > 0 && !lastGCBefore.IsZero() {
		collects = p.now.Sub(lastGCBefore) >= v.GCInterval
	}
	base := p.alpha
	if collects {
		base = vhUnexpired(p.alpha, p.now)
		verifCover("C09/Put/collects")
		for k := 0; k < len(p.alpha)-len(base); k++ {
			verifAssert(!vhValidReachable(v, p.alpha[k].msg), "C18/Valid/collected-message-unreachable")
		}
	}
	// bookkeeping of automatic collection: the interval restarts only when a collection ran
	if ntop > 0 {
		switch {
		case lastGCBefore.IsZero() || collects:
			verifAssert(v.lastGC.Equal(p.now), "C09/Put/collection-time-recorded")
		default:
			verifAssert(v.lastGC.Equal(lastGCBefore), "C09/Put/gc-interval-not-restarted-without-a-collection")
		}
	}
	valid := ntop > 0 && (p.auto != hasID)
	if !valid {
		verifAssert(err != nil && got == nil, "C09/Put/invalid-rejected")
		verifAssert(vhSameVEntries(alpha2, base), "C09/Put/rejected-not-stored-and-no-unexpired-dropped")
		if p.auto {
			verifAssert(*v.currentID == curBefore, "C09/Put/rejected-does-not-consume-id")
		}
		return
	}
	verifAssert(err == nil && got != nil, "C09/Put/valid-accepted")
	if err != nil || got == nil {
		return
	}
	want := append(append([]vhVEntry{}, base...), vhVEntry{msg: got})
	verifAssert(vhSameVEntries(alpha2, want), "C09/Put/appends-and-drops-no-unexpired")
	if len(alpha2) > 0 {
		last := alpha2[len(alpha2)-1]
		verifAssert(last.exp.Equal(p.now.Add(v.ttl)), "C09/Put/expiry-is-now-plus-ttl")
		verifAssert(len(last.topics) == ntop, "C09/Put/topics-stored")
	}
	if len(p.alpha) == len(p.r.messages.buf) || len(p.alpha) == 0 {
		verifCover("C09/Put/grow-or-first")
	}
	if p.auto {
		verifAssert(got != m && got.ID.String() == strconv.FormatUint(curBefore, 10) && *v.currentID == curBefore+1, "C09/Put/auto-id-next-decimal-on-copy")
	} else {
		verifAssert(got == m, "C09/Put/manual-stores-the-message")
	}
}

func vhC09Replay() {
	p := vhValidBuild()
	v := p.r
	n := len(p.alpha)
	cl := &vhClient{failSendAt: verifNondetInt("failat", -1, 3)}
	cl.failFlush = verifNondetBool("flushfails")
	sub := Subscription{Client: cl, Topics: vhTopics("stopic", verifParam("TOPICS", 1))}
	presentedSet := verifNondetBool("lidset")
	var lid string
	if presentedSet {
		if k := verifChoose("lidkind", n+1); k < n {
			lid = p.alpha[k].msg.ID.String()
		} else {
			lid = verifNondetString("lid", 2)
			verifAssume(vhSingleLine(lid))
		}
		sub.LastEventID = ID(lid)
	}

	err := v.Replay(sub)

	start := -1
	if presentedSet {
		for k := range p.alpha {
			if p.alpha[k].msg.ID.String() == lid {
				start = k
			}
		}
	}
	// never replayed at or after Put time + TTL
	for _, s := range cl.sent {
		for k := range p.alpha {
			if p.alpha[k].msg == s {
				verifAssert(p.alpha[k].exp.After(p.now), "C09/Replay/never-sends-an-expired-event")
			}
		}
	}
	if p.auto && presentedSet && start < 0 {
		if val, ok := vhParseDecimal(lid); ok && val < p.first {
			verifCover("C09/Replay/auto-evicted-id")
			return
		}
	}
	// the property speaks about the ID of an unexpired event; for an expired
	// (but not yet collected) ID go-sse still replays the later unexpired ones,
	// which is what a client that missed them needs: both are accepted as the same rule
	var want []*Message
	if start >= 0 {
		for k := start + 1; k < n; k++ {
			if p.alpha[k].exp.After(p.now) && vhTopicsIntersect(sub.Topics, p.alpha[k].topics) {
				want = append(want, p.alpha[k].msg)
			}
		}
	}
	if cl.failSendAt >= 0 && cl.failSendAt < len(want) {
		verifAssert(err == vhErrSend, "C09/Replay/send-error-returned")
		verifAssert(vhSameMsgs(cl.sent, want[:cl.failSendAt]), "C09/Replay/sends-before-failure")
		verifAssert(cl.callsAfter == 0, "C09/Replay/nothing-after-failure")
	} else {
		verifAssert(vhSameMsgs(cl.sent, want), "C09/Replay/sends-exactly-later-unexpired-matching-in-order")
		if len(want) > 0 {
			verifAssert(cl.flushes >= 1 && cl.flushAfter == len(want), "C09/Replay/flush-after-last-send")
			if !cl.failFlush {
				verifAssert(err == nil, "C09/Replay/no-error")
			}
			verifCover("C09/Replay/something-replayed")
		} else if !cl.failFlush {
			verifAssert(err == nil, "C09/Replay/nothing-to-replay-no-error")
		}
	}
	if start == n-1 && start >= 0 {
		verifCover("C09/Replay/newest-id")
	}
	alpha2 := vhValidAlpha("C09/Replay", v)
	verifAssert(vhSameVEntries(alpha2, p.alpha), "C09/Replay/buffer-unchanged")
}

// Base case.
func vhC09New() {
	ttl := verifNondetInt64("ttl")
	auto := verifNondetBool("auto")
	v, err := NewValidReplayer(time.Duration(ttl), auto)
	if ttl <= 0 {
		verifAssert(err != nil && v == nil, "C09/New/non-positive-ttl-refused")
		return
	}
	verifAssert(err == nil && v != nil, "C09/New/accepted")
	alpha := vhValidAlpha("C09/New", v)
	verifAssert(len(alpha) == 0, "C09/New/empty")
	verifAssert((v.currentID != nil) == auto && v.ttl == time.Duration(ttl), "C09/New/configured")
}

// vhValidPreReplay (PREREPLAY=1): an earlier Replay - at a moment when nothing buffered had
// expired yet - to a client whose k-th Send fails. It leaves nothing behind in the replayer.
func vhValidPreReplay(p vhValidPre) {
	if verifParam("PREREPLAY", 0) == 0 || len(p.alpha) == 0 {
		return
	}
	var all []string
	for _, e := range p.alpha {
		all = append(all, e.topics...)
	}
	early := p.alpha[0].exp.Add(-1)
	if early.After(p.now) || verifParam("PREREPLAY", 0) == 2 {
		early = p.now // PREREPLAY=2: the Replay happens now, when a prefix may already have expired
	}
	lid := p.alpha[0].msg.ID
	if p.auto && p.first > 0 {
		lid = ID(strconv.FormatUint(p.first-1, 10))
	}
	nowFn := p.r.Now
	p.r.Now = func() time.Time { return early }
	vhPreReplay(p.r, lid, all)
	p.r.Now = nowFn
}
